#!/bin/bash
# Builds and runs the upstream test suite with coroutines enabled (C++20, CORO) for /repo HEAD in a scratch worktree.
# The pinned baseline does not compile include/yaclib/coro at all; this is the extra safety net for fix: commits there.
WT=/tmp/cs_coro
git -C /repo worktree remove --force $WT 2>/dev/null
git -C /repo worktree add -q $WT HEAD || exit 2
cd $WT && cmake -G Ninja -S . -B _bc -DCMAKE_BUILD_TYPE=RelWithDebInfo -DCMAKE_CXX_FLAGS=-Wno-error -DYACLIB_TEST=ON \
  -DYACLIB_CXX_STANDARD=20 -DYACLIB_FLAGS=CORO -DFETCHCONTENT_SOURCE_DIR_GOOGLETEST=/usr/src/googletest >/dev/null 2>&1 || { echo configure failed; exit 2; }
cmake --build _bc -j8 2>&1 | tail -2
ctest --test-dir _bc -j4 --timeout 900 2>&1 | tail -6
for t in $(ctest --test-dir _bc -N --rerun-failed 2>/dev/null | grep -oE "Test +#[0-9]+: \S+" | awk '{print $3}'); do
  echo "re-running $t alone:"; ctest --test-dir _bc -R "^$t\$" --timeout 900 2>&1 | tail -2
done
cd /; git -C /repo worktree remove --force $WT
