#!/bin/bash
# Detection matrix: for every seeded change, run the quick check(s) recorded in its meta.json (first one only unless
# ALL=1) against a scratch worktree with the change applied, with the given VERIF_SEED, stopping at the first violation.
# usage: tools/matrix.sh <seed> [id...]     -> appends "<id> <prop> seed=<n> caught|MISSED <seconds>s" to work/matrix.log
cd /verif
SEED=$1; shift
ids=("$@"); [ ${#ids[@]} -eq 0 ] && ids=($(ls seeded))
mkdir -p work
for id in "${ids[@]}"; do
  [ -f seeded/$id/meta.json ] || continue
  props=$(python3 -c "import json;m=json.load(open('seeded/$id/meta.json'))['caught_by_quick_checks'];print(' '.join(m if '$ALL'=='1' else m[:1]))")
  for prop in $props; do
    t0=$(date +%s)
    out=$(VERIF_SEED=$SEED VERIF_STOP_AT_FIRST=1 tools/with_patch_wt.sh seeded/$id/patch.diff ./check $prop 2>&1); rc=$?
    t1=$(date +%s)
    if echo "$out" | grep -q "^VIOLATION property=$prop"; then r=caught; elif [ $rc -eq 0 ]; then r=MISSED; else r="ERROR(rc=$rc)"; echo "$out" | tail -5 > work/matrix-$id-$prop.err; fi
    echo "$id $prop seed=$SEED $r $((t1-t0))s $(echo "$out" | grep -m1 'reason:' | cut -c1-120)" >> work/matrix.log
  done
done
echo "MATRIX-DONE seed=$SEED" >> work/matrix.log
