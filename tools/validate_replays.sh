#!/bin/bash
# Every harvested regression case replays/<prop>/seeded-<id>.case must FAIL on a tree with seeded change <id> applied
# (and pass on the unchanged tree, which the replay tier of ./check establishes). usage: tools/validate_replays.sh [id...]
cd /verif
ids=("$@"); [ ${#ids[@]} -eq 0 ] && ids=($(ls seeded))
for id in "${ids[@]}"; do
  files=$(ls replays/*/seeded-$id.case 2>/dev/null)
  [ -z "$files" ] && continue
  cat > /tmp/vr_inner.sh <<I
#!/bin/bash
for f in $(echo $files); do
  if ./check --replay \$f >/tmp/vr_out.txt 2>&1; then echo "$id \$f: PASSES under the change (stale)"; else echo "$id \$f: fails under the change (ok)"; fi
done
I
  chmod +x /tmp/vr_inner.sh
  tools/with_patch_wt.sh seeded/$id/patch.diff /tmp/vr_inner.sh
done
