#!/bin/bash
# Confirms seeded changes in a scratch worktree (never in /repo): with the change the pinned suite builds and passes
# and the demonstration fails; without it the demonstration passes. Writes <dir>/confirm.json.
# usage: tools/confirm_seeded.sh seeded/<id> [seeded/<id> ...]
WT=/tmp/cs
exec 8>/tmp/cs.lock; flock 8   # one confirmation run at a time
DIRS=(); for d in "$@"; do DIRS+=("$(realpath "$d")"); done
if [ ! -d $WT ]; then git -C /repo worktree add -q $WT HEAD || exit 2; fi
cd $WT || exit 2
git checkout -q --detach "$(git -C /repo rev-parse HEAD)" 2>/dev/null
if [ ! -f _b/build.ninja ]; then
  cmake -G Ninja -S . -B _b -DCMAKE_BUILD_TYPE=RelWithDebInfo -DCMAKE_CXX_FLAGS=-Wno-error -DYACLIB_TEST=ON >/dev/null 2>&1 || exit 2
fi
for D in "${DIRS[@]}"; do
  d=$(basename "$D")
  git checkout -q -- . ; git clean -fdq -e _b
  if ! git apply "$D/patch.diff"; then echo "{\"applies\": false}" > "$D/confirm.json"; continue; fi
  cmake --build _b -j6 > "$D/.build.log" 2>&1; brc=$?
  suite="not run"; failed=""
  if [ $brc -eq 0 ]; then
    ctest --test-dir _b -j4 --timeout 900 > "$D/.ctest.log" 2>&1
    failed=$(grep -E "^\s+[0-9]+ - .*\((Failed|Timeout|SEGFAULT|Subprocess aborted)" "$D/.ctest.log" | sed -E 's/^\s+[0-9]+ - (\S+).*/\1/' | tr '\n' ' ')
    still=""
    for t in $failed; do
      ok=0; for k in 1 2 3; do if ctest --test-dir _b -R "^$t\$" --timeout 900 >/dev/null 2>&1; then ok=1; break; fi; done
      [ $ok -eq 0 ] && still="$still $t"
    done
    if [ -z "$still" ]; then suite="pass"; else suite="FAIL:$still"; fi
  fi
  bash "$D/run_demo.sh" $WT > "$D/.demo_with.log" 2>&1; with_rc=$?
  git checkout -q -- . ; git clean -fdq -e _b
  bash "$D/run_demo.sh" $WT > "$D/.demo_without.log" 2>&1; without_rc=$?
  printf '{"applies": true, "build_rc": %d, "suite_with_change": "%s", "flaky_rerun_in_isolation": "%s", "demo_rc_with_change": %d, "demo_rc_without_change": %d, "repo_commit": "%s"}\n' \
     $brc "$suite" "$failed" $with_rc $without_rc "$(git -C /repo rev-parse --short HEAD)" > "$D/confirm.json"
  rm -f "$D/.build.log" "$D/.ctest.log"
  echo "$d: $(cat $D/confirm.json)"
done
git checkout -q -- . ; git clean -fdq -e _b
