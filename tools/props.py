"""Per-property job lists: which worker binary / family runs with which budget in which tier.

job keys: target (tools/build.py target), family, mode ('random' | 'dfs'), cases, max_size, workers, bound,
          timeout (s, wall-clock cap -> inconclusive), env (extra environment), racy (real threads)
"""

FIBER_ASSUME = [
    "YACLib's own fiber scheduler and yaclib_std fiber primitives are the execution substrate (code under test only "
    "for C17-C19); decisions are taken by the explorer through the guarded YACLIB_VERIF hook",
    'interleavings are explored at the granularity of yaclib_std operations (every atomic/mutex/condvar access), which '
    'covers sequentially consistent behaviours of data-race-free code only; weak-memory effects are out of scope here '
    '(see C04)',
    'compilers, sanitizer run-times and rapidcheck are trusted',
]


def q(quick, thorough):
    return lambda tier: quick if tier == 'quick' else thorough


PROPS = {}
NOT_CLAIMED = {}
HOOK_COMMITS = ['bb2ba6b']

PROPS['C01'] = dict(
    level='exploration',
    assumptions=FIBER_ASSUME,
    technique='rapidcheck-generated (program, schedule) cases + bounded-exhaustive schedule enumeration against an '
              'exactly-once / equality / balance oracle',
    level_text='All 378 producer x consumer x payload x executor programs are run under every schedule with at most 2 '
               '(quick) / 3 (thorough) preemptions plus one spurious CAS failure, and under 3e5 / 6e6 random schedules; '
               'each run is checked for exactly-once delivery of an equal Result, Ready() => readable, nothing early, '
               'nothing after a dropped Future, Tracked and heap balance, no deadlock. Held on everything explored; '
               'not a proof beyond the preemption bound.',
    level_note='Trusts the fiber scheduler substrate, the explorer hook, g++/ASan, rapidcheck; SC interleavings only.',
    jobs=q(
        [dict(target='handoff', family='handoff', mode='dfs', bound=2, workers=8, timeout=600),
         dict(target='handoff', family='handoff', mode='random', cases=40000, workers=8, timeout=600)],
        [dict(target='handoff', family='handoff', mode='dfs', bound=3, workers=16, timeout=3000),
         dict(target='handoff', family='handoff', mode='random', cases=400000, workers=16, timeout=3000)]),
)

PROPS['C19'] = dict(
    level='exploration',
    assumptions=['std::atomic<T> of libstdc++ (g++ 12, x86-64) is the reference model; one thread only',
                 'harness built at -O0 with ASan + UBSan (signed-integer-overflow excluded: std::atomic arithmetic wraps)'],
    technique='rapidcheck stateful operation sequences, differential against std::atomic<T> (bitwise), both back ends',
    level_text='Generated operation sequences (<=48 ops, 13 types incl. pointer, float/double and atomic_flag, '
               'boundary-biased operands, all legal memory orders, hook-chosen / always / never spurious weak-CAS '
               'failures) are executed on yaclib_std::atomic<T> of the FIBER build and of the THREAD build and on '
               'std::atomic<T>; every return value, expected and stored value is compared bitwise after each step. '
               'Held on everything generated.',
    level_note='Differential oracle: trusts libstdc++ std::atomic on x86-64; single thread; does not cover wait/notify '
               '(compiled out: YACLIB_FUTEX=0) nor operator=(T) of the THREAD wrapper (does not compile).',
    jobs=q(
        [dict(target='atomic-fib', family='atomic_fiber', mode='random', cases=30000, workers=8, timeout=600),
         dict(target='atomic-thr', family='atomic_thread', mode='random', cases=30000, workers=8, timeout=600)],
        [dict(target='atomic-fib', family='atomic_fiber', mode='random', cases=600000, workers=8, timeout=3000),
         dict(target='atomic-thr', family='atomic_thread', mode='random', cases=600000, workers=6, timeout=3000),
         dict(target='atomic-fuzz', family='atomic_fiber', mode='fuzz', cases=4000000, workers=2, timeout=3000, replay_target='atomic-fib')]),
)

PROPS['C18'] = dict(
    level='exploration',
    assumptions=FIBER_ASSUME + ['the fiber scheduler itself (run queue, sleep list, virtual clock) is trusted as substrate '
                                'here; its own crashes surface as worker crashes and are reported'],
    technique='rapidcheck stateful per-fiber operation sequences x explorer schedules against a holder-compatibility '
              'model with busy windows, virtual-clock deadlines and exact deadlock detection',
    level_text='2..4 fibers run generated lock/try/timed/shared/recursive sequences on each of the six mutex kinds, '
               'token poster/waiter programs on condition_variable (all wait forms), join/TLS/sleep programs and a '
               'reader-rendezvous scenario; the schedule (preemptions, run-queue picks, notify_one victims, timer '
               'jitter) is chosen by the explorer. Incompatible holders, failed tries without cause, early timeouts, '
               'wrong-mode acquisitions and any fiber left parked (exact quiescence check) are violations. Smallest '
               'configurations are also enumerated exhaustively up to the preemption bound.',
    level_note='Trusts the explorer hook and the scheduler substrate; liveness only as termination of bounded programs.',
    jobs=q(
        [dict(target='stdlocks', family='stdlocks', mode='random', cases=25000, workers=12, timeout=600),
         dict(target='stdlocks', family='stdlocks', mode='dfs', bound=1, workers=3, timeout=600, args=['--dfs-cap', '30000']),
         dict(target='stdlocks-dbg', gen_target='stdlocks', family='stdlocks', mode='dbgreplay', cases=15000, workers=1, timeout=600)],
        [dict(target='stdlocks', family='stdlocks', mode='random', cases=300000, workers=14, timeout=3000),
         dict(target='stdlocks', family='stdlocks', mode='dfs', bound=2, workers=9, timeout=3000),
         dict(target='stdlocks-dbg', gen_target='stdlocks', family='stdlocks', mode='dbgreplay', cases=150000, workers=2, timeout=3000)]),
)

PROPS['C17'] = dict(
    level='exploration',
    assumptions=['the hook is installed in observe-only mode (choose=false): every decision is taken by the library PRNG '
                 'exactly as upstream; only the id of each resumed fiber is recorded',
                 'protocol: SetSeed + SetInjectorState(0) are the first statements of the main fiber in every compared '
                 'run; ForwardToFaultRandomCount(n) advances BY n draws counted from that point',
                 'CAS-fail frequency 1 (every weak CAS fails, retry loops cannot end) and frequency/sleep 0 (division by '
                 'zero in the fault layer) are outside the generated domain'],
    technique='rapidcheck-generated (program, seed, fault configuration) cases; metamorphic oracle: equal fiber traces, '
              'random/injected deltas and results across rerun / fresh process / restored continuation',
    level_text='Generated client programs (pool+strand, timed waits, coroutine mutex, lock/condvar, contended weak CAS) '
               'run under generated seeds, fault frequencies, sleep times, CAS-fail frequencies, pick widths and tick '
               'lengths; each case is executed twice in-process, or once more in a freshly exec\'ed process, or split '
               'A;B and continued from the recorded (random count, injector state). Any difference in the trace of '
               'resumed fibers, in the number of random draws / injected yields or in results is a violation.',
    level_note='Observes fiber switches only at scheduler level (not every atomic); equality is checked via 64-bit '
               'trace hashes plus lengths and counters.',
    jobs=q(
        [dict(target='repro', family='repro', mode='random', cases=12000, workers=14, timeout=600, flaky_is_violation=True)],
        [dict(target='repro', family='repro', mode='random', cases=200000, workers=16, timeout=3000, flaky_is_violation=True)]),
)

PROPS['C07'] = dict(
    level='exploration',
    assumptions=FIBER_ASSUME,
    technique='rapidcheck-generated (executor stack, submitters, jobs, stop point, schedule) cases + bounded-exhaustive '
              'schedules of the smallest configurations; history-validity oracle (exactly-once, overlap, order, accounting)',
    level_text='1..3 submitter fibers push 1..4 instrumented jobs each (some re-submitting a child) into a Strand over '
               'FairThreadPool(1..3) / Strand / Manual drained by a fiber / Inline / a refusing executor while another '
               'fiber stops the pool at a generated point; every schedule decision comes from the explorer. Checked: no '
               'two strand jobs overlap, execution respects program order and submit-returned-before-submit-began '
               'order, each job is Called xor Dropped exactly once and all are accounted for after the harness stopped '
               'and joined the pool, Drop only if something refused, no fiber parked (n=1 included).',
    level_note='Happens-before between consecutive jobs is covered by C04 (TSan), not here. Trusts the scheduler substrate.',
    jobs=q(
        [dict(target='exec', family='strand', mode='random', cases=20000, workers=12, timeout=600),
         dict(target='exec', family='strand', mode='dfs', bound=1, workers=4, timeout=600, args=['--dfs-cap', '2500'])],
        [dict(target='exec', family='strand', mode='random', cases=300000, workers=14, timeout=3000),
         dict(target='exec', family='strand', mode='dfs', bound=2, workers=12, timeout=3000, args=['--dfs-cap', '100000'])]),
)

PROPS['C08'] = dict(
    level='exploration',
    assumptions=FIBER_ASSUME,
    technique='rapidcheck-generated (submitters, jobs, workers, stop kind/point, schedule) cases + bounded-exhaustive '
              'schedules of the smallest configurations; accounting / Wait-barrier / FIFO oracle',
    level_text='1..3 submitter fibers x 1..4 jobs, 1..3 workers, one fiber calling Stop / SoftStop / HardStop after a '
               'generated number of yields (or after all submits), then Wait. A job is accepted iff it was not Dropped '
               'when Submit returned; accepted => Called once unless HardStop removed it; refused => Dropped once; no '
               'Call after Wait returned; with one worker jobs start in submission order; no fiber parked.',
    level_note='Trusts the scheduler substrate and the explorer; SoftStop wish semantics as implemented (harness joins '
               'submitters and calls Stop before Wait, as a client must).',
    jobs=q(
        [dict(target='exec', family='pool', mode='random', cases=20000, workers=12, timeout=600),
         dict(target='exec', family='pool', mode='dfs', bound=1, workers=4, timeout=600, args=['--dfs-cap', '5000'])],
        [dict(target='exec', family='pool', mode='random', cases=300000, workers=14, timeout=3000),
         dict(target='exec', family='pool', mode='dfs', bound=2, workers=8, timeout=3000, args=['--dfs-cap', '100000'])]),
)

PROPS['C06'] = dict(
    level='exploration',
    assumptions=FIBER_ASSUME,
    technique='rapidcheck stateful observer operation sequences x explorer schedules + bounded-exhaustive schedules of '
              'two-observer programs; exactly-once / value / Tracked-payload oracle',
    level_text='One fulfilling fiber (value, error, exception or dropped SharedPromise, optionally attaching through '
               'the promise first) and 2..4 observer fibers run generated sequences of every observer operation on '
               'their own copy or on a shared const reference, incl. coroutines, Share/Connect/Split and a final '
               'Get&&; schedules from the explorer. Every callback/awaiter must fire exactly once and only after Set '
               'began with the set value, Ready() must imply a readable value, the checksummed Tracked payload flags '
               'moved-from/destroyed/torn reads, and payload and heap balance must be zero at quiescence.',
    level_note='SC interleavings only; the move-out data race is C04\'s job. Trusts scheduler substrate and explorer.',
    jobs=q(
        [dict(target='shared', family='shared', mode='random', cases=20000, workers=12, timeout=600),
         dict(target='shared', family='shared', mode='dfs', bound=1, workers=4, timeout=600, args=['--dfs-cap', '6000'])],
        [dict(target='shared', family='shared', mode='random', cases=300000, workers=14, timeout=3000),
         dict(target='shared', family='shared', mode='dfs', bound=2, workers=14, timeout=3000, args=['--dfs-cap', '150000'])]),
)

WHEN_TEXT = ('Each of n (0..4) inputs is fulfilled (value / error / exception, payload distinct per input) by its own '
             'fiber while the consumer fiber builds the combinator in one of the iterator / variadic x unique / shared '
             '/ mixed / void / tuple forms and attaches an inline sink; schedules from the explorer. The logical-time '
             'history is checked by a validity predicate: output exactly once with an allowed state, source and '
             'per-index elements, not ready before the last input began, delivered by the deciding Set or the attach '
             'call, first/last decisions only between inputs whose consume intervals do not overlap; Tracked payload and '
             'heap balance prove every input was released exactly once; kept SharedFuture copies stay readable.')
PROPS['C09'] = dict(
    level='exploration', assumptions=FIBER_ASSUME,
    technique='rapidcheck-generated (form, policy, n, outcomes, delay, schedule) cases + bounded-exhaustive schedules of '
              'two-input programs; history validity predicate + release ledger',
    level_text=WHEN_TEXT,
    level_note='Oracle never orders inputs whose consume intervals overlap (implementation choice). SC interleavings only.',
    jobs=q(
        [dict(target='when', family='whenall', mode='random', cases=25000, workers=12, timeout=600),
         dict(target='when', family='whenall', mode='dfs', bound=2, workers=4, timeout=600, args=['--dfs-cap', '8000'])],
        [dict(target='when', family='whenall', mode='random', cases=400000, workers=14, timeout=3000),
         dict(target='when', family='whenall', mode='dfs', bound=3, workers=12, timeout=3000, args=['--dfs-cap', '300000'])]),
)
PROPS['C10'] = dict(
    level='exploration', assumptions=FIBER_ASSUME,
    technique='rapidcheck-generated (form, policy, n, outcomes, delay, schedule) cases + bounded-exhaustive schedules of '
              'two-input programs; history validity predicate + release ledger',
    level_text=WHEN_TEXT,
    level_note='Oracle never orders inputs whose consume intervals overlap (implementation choice). SC interleavings only.',
    jobs=q(
        [dict(target='when', family='whenany', mode='random', cases=25000, workers=12, timeout=600),
         dict(target='when', family='whenany', mode='dfs', bound=2, workers=4, timeout=600, args=['--dfs-cap', '8000'])],
        [dict(target='when', family='whenany', mode='random', cases=400000, workers=14, timeout=3000),
         dict(target='when', family='whenany', mode='dfs', bound=3, workers=12, timeout=3000, args=['--dfs-cap', '300000'])]),
)

PROPS['C11'] = dict(
    level='exploration', assumptions=FIBER_ASSUME + ['timeouts and producer delays run on the fiber back end\'s virtual clock'],
    technique='rapidcheck-generated (futures, wait kind/form, virtual delays and deadline, follow-ups, schedule) cases + '
              'bounded-exhaustive schedules of the smallest programs; readiness / deadline / exactly-once-after / '
              'event-liveness oracle',
    level_text='1..3 futures completed by producer fibers after generated virtual delays are waited on with Wait, WaitFor '
               'or WaitUntil in the single/variadic and both iterator forms (shared and mixed inputs for the untimed '
               'form) with a deadline before, between or after the completions; afterwards each future gets a generated '
               'follow-up (Get, DetachInline, Wait+Touch, ThenInline, second WaitFor). true => all Ready and every Set '
               'had begun; false => virtual now >= deadline; each value is delivered exactly once afterwards; a harness '
               'Event passed through the public template parameter plus ASan stack-use-after-return prove no completion '
               'touches the waiter after the call returned; no parked fiber.',
    level_note='Trusts the virtual clock / scheduler substrate (its crashes surface as worker crashes).',
    jobs=q(
        [dict(target='wait', family='wait', mode='random', cases=20000, workers=12, timeout=600),
         dict(target='wait', family='wait', mode='dfs', bound=2, workers=3, timeout=600, args=['--dfs-cap', '6000']),
         dict(target='wait-dbg', gen_target='wait', family='wait', mode='dbgreplay', cases=10000, workers=1, timeout=600)],
        [dict(target='wait', family='wait', mode='random', cases=300000, workers=14, timeout=3000),
         dict(target='wait', family='wait', mode='dfs', bound=3, workers=12, timeout=3000, args=['--dfs-cap', '200000'])]),
)
PROPS['C16'] = dict(
    level='exploration', assumptions=FIBER_ASSUME + ['Add is only generated for fibers that still hold a token (documented rule)'],
    technique='rapidcheck stateful histories (Add/Done workers, attached/consumed futures, six waiter kinds, OneShotEvent '
              'rounds) x explorer schedules + bounded-exhaustive schedules of one-waiter programs; counter-model oracle',
    level_text='Token-holding worker fibers Add/Done, futures are Attach-ed / Consume-d (variadic and iterator forms) and '
               'completed by producer fibers, and waiters of every kind (Wait, WaitFor, WaitUntil, co_await inline / sticky '
               '/ on(e)) arrive before, during and after the last Done; OneShotEvent rounds with Wait/WaitFor/TryAdd/'
               'co_await, Call vs Set and Reset. The harness counter is decremented before each Done/completion, so a '
               'released waiter must observe zero; every waiter is released exactly once and none stays parked; timed '
               'false => deadline passed; attached futures are not Ready before their Set began and keep their value; '
               'consumed payloads are destroyed once.',
    level_note='Trusts scheduler substrate and explorer; virtual clock for timed waits.',
    jobs=q(
        [dict(target='wait', family='waitgroup', mode='random', cases=20000, workers=12, timeout=600),
         dict(target='wait', family='waitgroup', mode='dfs', bound=2, workers=4, timeout=600, args=['--dfs-cap', '6000'])],
        [dict(target='wait', family='waitgroup', mode='random', cases=300000, workers=14, timeout=3000),
         dict(target='wait', family='waitgroup', mode='dfs', bound=3, workers=12, timeout=3000, args=['--dfs-cap', '200000'])]),
)

PROPS['C14'] = dict(
    level='exploration', assumptions=FIBER_ASSUME,
    technique='rapidcheck-generated (options, coroutines, rounds, lock/unlock forms, workers, schedule) cases + '
              'bounded-exhaustive schedules of two-coroutine programs; holder-count / visibility / FIFO / termination oracle',
    level_text='2..4 coroutines x 1..3 rounds on a FairThreadPool of 1..3 workers use every lock form (Lock, Guard, '
               'GuardSticky, TryLock, TryGuard) and unlock form (Unlock, UnlockOn(e) to a second pool, UnlockHere, guard '
               'destruction, guard.Unlock) of Mutex<Batching,FIFO> for all four option pairs, with optional Yield inside '
               'the critical section; schedules from the explorer. holders <= 1 at every entry, data written in one '
               'section is visible in the next, every request is granted (exact quiescent-deadlock detection, incl. a '
               'single worker), with FIFO on one worker grants follow arrival order; the mutex is destroyed right after '
               'the last coroutine finished, so late touches are ASan errors.',
    level_note='Happens-before between critical sections under the real memory model is C04\'s job. Trusts substrate.',
    jobs=q(
        [dict(target='comutex', family='comutex', mode='random', cases=15000, workers=12, timeout=600),
         dict(target='comutex', family='comutex', mode='dfs', bound=1, workers=4, timeout=600, args=['--dfs-cap', '4000'])],
        [dict(target='comutex', family='comutex', mode='random', cases=250000, workers=14, timeout=3000),
         dict(target='comutex', family='comutex', mode='dfs', bound=2, workers=10, timeout=3000, args=['--dfs-cap', '150000'])]),
)
PROPS['C15'] = dict(
    level='exploration', assumptions=FIBER_ASSUME,
    technique='rapidcheck-generated (options, reader/writer coroutines, rounds, forms, workers, schedule) cases + '
              'bounded-exhaustive schedules of two-coroutine programs; compatibility / visibility / termination oracle',
    level_text='2..4 reader/writer coroutines x 1..3 rounds on a FairThreadPool of 1..3 workers use Lock/LockShared + '
               'UnlockHere(Shared), Guard/GuardShared, TryLock(Shared) and TryGuard(Shared) of SharedMutex<FIFO,ReadersFIFO> '
               'for all four option pairs, with optional Yield inside; schedules from the explorer. A writer never '
               'overlaps anyone, readers only overlap readers, data written under the exclusive lock is visible to the '
               'next holder, every coroutine finishes (exact quiescent-deadlock detection); the mutex is destroyed right '
               'after the last coroutine finished, so late touches are ASan errors.',
    level_note='Spinlock waits terminate through the explorer\'s fair default; SC interleavings only. Trusts substrate.',
    jobs=q(
        [dict(target='comutex', family='cosharedmutex', mode='random', cases=15000, workers=12, timeout=600),
         dict(target='comutex', family='cosharedmutex', mode='dfs', bound=1, workers=4, timeout=600, args=['--dfs-cap', '4000'])],
        [dict(target='comutex', family='cosharedmutex', mode='random', cases=250000, workers=14, timeout=3000),
         dict(target='comutex', family='cosharedmutex', mode='dfs', bound=2, workers=10, timeout=3000, args=['--dfs-cap', '150000'])]),
)

PROPS['C13'] = dict(
    level='exploration', assumptions=FIBER_ASSUME + ['where a coroutine runs after a plain (inline) co_await / Await is not constrained: it inherits the awaited core\'s executor like a continuation'],
    technique='rapidcheck-generated coroutine await scripts x producers x explorer schedules, built with and without '
              'symmetric transfer, + bounded-exhaustive schedules of single-await programs; resume-once / value / '
              'executor-identity / frame-lifetime oracle',
    level_text='1..3 coroutines (Future, Task, SharedFuture) interpret generated scripts of awaits over every awaiter form '
               '(co_await Future/SharedFuture/Task, Await/AwaitSticky/AwaitOn of one or two, unique/shared/mixed, variadic '
               'and iterator, On, kYield, CurrentExecutor, stopped executors, escaping throw) while a producer fiber '
               'fulfils what is not pre-ready; schedules from the explorer; two builds (symmetric transfer on/off in '
               'thorough). Each co_await resumes exactly once and only after its Sets began with the value or rethrown '
               'failure; Await leaves futures valid+ready; after On/AwaitOn/Sticky/kYield the worker fiber identity '
               'matches the named/own executor; a stopped executor completes the coroutine with StopError, nothing '
               'after the await runs, the frame local is destroyed once; co_return/escaping exception become the Result.',
    level_note='Executor identity = id of the single worker fiber of a one-worker pool. Trusts scheduler substrate.',
    jobs=q(
        [dict(target='coro', family='coro', mode='random', cases=15000, workers=12, timeout=600),
         dict(target='coro', family='coro', mode='dfs', bound=1, workers=4, timeout=600, args=['--dfs-cap', '4000'])],
        [dict(target='coro', family='coro', mode='random', cases=200000, workers=10, timeout=3000),
         dict(target='coro-nost', family='coro', mode='random', cases=200000, workers=6, timeout=3000),
         dict(target='coro', family='coro', mode='dfs', bound=2, workers=10, timeout=3000, args=['--dfs-cap', '100000'])]),
)

PIPE_ASSUME = ['single OS thread, YACLIB_FAULT=OFF build with coroutines; deterministic',
               'the reference interpreter (~150 lines over plain values) is the oracle; it was validated by zero '
               'disagreements on the unchanged tree and by seeded changes it flags',
               'universe: {int, void} x {Future, FutureOn, Task}, one custom error type carrying a payload; <= 7 steps']
PIPE_NOTE = 'Differential against a hand-written model: a shared misunderstanding of the documentation would go unnoticed.'
def pipe_jobs(fam):
    return q([dict(target='pipeline', family=fam, mode='random', cases=60000, workers=12, timeout=900)],
             [dict(target='pipeline', family=fam, mode='random', cases=1500000, workers=14, timeout=3000, max_size=200)] +
             ([dict(target='pipeline-fuzz', family='pipefuzz', mode='fuzz', cases=3000000, workers=2, timeout=3000, max_len=256,
                    replay_target='pipeline')] if fam in ('pipeline', 'lazy') else []))
PROPS['C02'] = dict(
    level='exploration', assumptions=PIPE_ASSUME, level_note=PIPE_NOTE,
    technique='rapidcheck-generated pipeline programs run through a typed interpreter and compared with a reference model '
              '(final Result with payload + ordered list of invoked callbacks)',
    level_text='Generated programs over every source, attachment mode, callback signature class, output type and return '
               'class (plain, Result, throwing, Future, SharedFuture, Task) with two instrumented executors are executed '
               'by the library and by the reference interpreter; final state, value / error code / exception identity and '
               'the ordered list of invoked callbacks must agree (values are transformed +1 and errors carry a payload so '
               'that a skipped or doubled step and a replaced failure are visible). The SharedFuture observer family runs in addition for the flattening of a returned SharedFuture that still has other holders (Tracked payload).',
    jobs=lambda tier: pipe_jobs('pipeline')(tier) + [dict(target='shared', family='shared', mode='random', cases=8000 if tier == 'quick' else 150000, workers=2, timeout=900 if tier == 'quick' else 3000)])
PROPS['C12'] = dict(
    level='exploration', assumptions=PIPE_ASSUME, level_note=PIPE_NOTE,
    technique='rapidcheck-generated lazy pipelines x start mode / abandonment; nothing-before-start, reference model and '
              'eager-twin differential',
    level_text='The same programs behind MakeTask / Schedule heads are started by ToFuture, ToFuture(e), Get, Detach(+sink), '
               'Detach(e), returned from a continuation of an eager pipeline, co_await and Await, or abandoned: before the '
               'start no callback ran and no executor saw a Submit; afterwards each step ran at most once in pipeline order '
               'and the final Result equals the reference model and the eager twin (same steps behind MakeFuture / Run); '
               'an abandoned Task runs exactly the callbacks of the cancelled-chain model (no value callback).',
    jobs=pipe_jobs('lazy'))
PROPS['C20'] = dict(
    level='exploration', assumptions=PIPE_ASSUME + ['global operator new/delete are replaced by counting versions in the harness binary'],
    level_note='Counts calls of operator new; allocations through malloc (exception objects) are not counted by design.',
    technique='rapidcheck-generated pipeline programs and combinator / wait calls with operator-new counting against the '
              'model\'s construct count, constant-in-n and zero bounds',
    level_text='For generated pipelines the number of operator new calls must not exceed the number of constructs counted '
               'by the reference model (one per Run / Schedule / Then* / Detach* / Make* / contract / inner future). A second '
               'family calls WhenAll / WhenAny / Join in every form and policy with n up to 256 inputs (count must not grow '
               'with n and stay <= 8) and Wait / WaitFor / WaitUntil / Get / Strand submission / co_await of plain futures '
               '(exactly 0).',
    jobs=q([dict(target='pipeline', family='allocs', mode='random', cases=60000, workers=10, timeout=900),
            dict(target='allocbounds', family='allocbounds', mode='random', cases=3000, workers=4, timeout=900)],
           [dict(target='pipeline', family='allocs', mode='random', cases=1500000, workers=12, timeout=3000, max_size=200),
            dict(target='allocbounds', family='allocbounds', mode='random', cases=40000, workers=4, timeout=3000)]))

PROPS['C05'] = dict(
    level='exploration', assumptions=PIPE_ASSUME + FIBER_ASSUME, level_note=PIPE_NOTE,
    technique='(a) rapidcheck-generated pipelines with per-step executor choice and a refusal point per executor against the '
              'placement model; (b) instrumented jobs on Inline/Manual/Strand/FairThreadPool stacks under explorer '
              'schedules while a fiber stops the pool (Call xor Drop accounting)',
    level_text='(a) every Call-type step whose executor accepted the job must have run inside that executor (tag set '
               'around Call), Then() on a FutureOn/Task must use the inherited executor computed by the model, the number '
               'of Submits per executor must equal the model (ThenInline submits nothing) and after a refused Submit the '
               'step sees StopError, value callbacks are skipped and the chain completes with the model\'s result; '
               '(b) every job handed to the library\'s executors is Called xor Dropped exactly once, Drop only if '
               'something refused, under explorer-chosen interleavings of Submit with Stop/SoftStop/HardStop; (c) continuation '
               'chains over FairThreadPool / Strand / Manual while a fiber stops the pool: the chain always completes, a refused '
               'step sees StopError, value callbacks are skipped afterwards, order and exactly-once hold.',
    jobs=q([dict(target='pipeline', family='placement', mode='random', cases=60000, workers=8, timeout=900),
            dict(target='exec', family='execjobs', mode='random', cases=15000, workers=5, timeout=900),
            dict(target='realpipe', family='realpipe', mode='random', cases=15000, workers=3, timeout=900)],
           [dict(target='pipeline', family='placement', mode='random', cases=1500000, workers=10, timeout=3000, max_size=200),
            dict(target='exec', family='execjobs', mode='random', cases=300000, workers=6, timeout=3000),
            dict(target='realpipe', family='realpipe', mode='random', cases=300000, workers=4, timeout=3000)]))
REL = {'VF_RELEASE_ONLY': '1'}
PROPS['C03'] = dict(
    level='exploration', assumptions=PIPE_ASSUME + FIBER_ASSUME,
    level_note='Release is observed through Tracked payloads / functor captures and a counting operator new/delete; memory '
               'obtained otherwise is covered by ASan only.',
    technique='generators of C02/C12 (drop / refusal / throw / never-started dimensions), C01, C06, C09, C10, C13 and C16 '
              're-run under the release oracle only: Tracked life-cycle, constructed == destroyed, heap-block balance, ASan',
    level_text='The pipeline programs (handles dropped, executors refusing from their k-th Submit, throwing callbacks, '
               'Tasks never started) and the fiber families of C01, C06, C09, C10, C13 and C16 (every interleaving the '
               'explorer generates) are executed with only the ownership clauses armed: no operation on a destroyed or '
               'moved-from payload, functor captures and payloads constructed == destroyed, live heap blocks back to the '
               'starting level at quiescence, coroutine frame locals destroyed once; ASan reports always count.',
    jobs=q([dict(target='pipeline', family='release', mode='random', cases=60000, workers=4, timeout=900),
            dict(target='handoff', family='handoff', mode='random', cases=15000, workers=2, timeout=900, env=REL),
            dict(target='shared', family='shared', mode='random', cases=10000, workers=3, timeout=900, env=REL),
            dict(target='when', family='whenall', mode='random', cases=10000, workers=2, timeout=900, env=REL),
            dict(target='when', family='whenany', mode='random', cases=10000, workers=2, timeout=900, env=REL),
            dict(target='coro', family='coro', mode='random', cases=8000, workers=2, timeout=900, env=REL),
            dict(target='wait', family='waitgroup', mode='random', cases=8000, workers=1, timeout=900, env=REL),
            dict(target='realpipe', family='realpipe', mode='random', cases=10000, workers=1, timeout=900, env=REL)],
           [dict(target='pipeline', family='release', mode='random', cases=1500000, workers=4, timeout=3000, max_size=200),
            dict(target='handoff', family='handoff', mode='random', cases=300000, workers=2, timeout=3000, env=REL),
            dict(target='shared', family='shared', mode='random', cases=200000, workers=3, timeout=3000, env=REL),
            dict(target='when', family='whenall', mode='random', cases=200000, workers=2, timeout=3000, env=REL),
            dict(target='when', family='whenany', mode='random', cases=200000, workers=2, timeout=3000, env=REL),
            dict(target='coro', family='coro', mode='random', cases=150000, workers=2, timeout=3000, env=REL),
            dict(target='wait', family='waitgroup', mode='random', cases=150000, workers=1, timeout=3000, env=REL),
            dict(target='realpipe', family='realpipe', mode='random', cases=150000, workers=1, timeout=3000, env=REL)]))

PROPS['C04'] = dict(
    level='exploration',
    assumptions=['ThreadSanitizer\'s happens-before analysis (g++ 12 run-time) is the oracle: it reports missing edges on '
                 'executed paths independently of whether x86 would misbehave; it does not explore non-SC outcomes',
                 'under TSan the library compiles the acq_rel variant of AtomicCounter::SubEqual (YACLIB_TSAN), the '
                 'release+fence variant is never observed', 'OS schedules cannot be pinned: each program runs 20 times '
                 'with generated start skews, on FAULT=OFF and on FAULT=THREAD (injected sleeps) builds',
                 'generated programs are race-free at harness level by construction (own slots, std::latch before reads)'],
    technique='rapidcheck-generated multi-threaded client programs (12 shapes isolating one library-provided edge each) '
              'executed on real threads under ThreadSanitizer in two fault-injection builds',
    level_text='Each generated program makes a library edge the only order between a plain write and a plain read '
               '(promise->continuation in six attach forms, Get/Wait/WaitFor/WaitUntil return, Ready()==true, SharedFuture '
               'observers with copies dropped / moved out on other threads, last-owner destruction, consecutive strand '
               'jobs, pool submit->run->Wait, HardStop vs workers, coroutine Mutex/SharedMutex sections, WhenAll/WhenAny '
               'outputs, WaitGroup/OneShotEvent, co_await resumption), runs 20x with start skews under TSan on the '
               'FAULT=OFF and FAULT=THREAD builds. Any TSan report or wrong payload is a violation.',
    level_note='Detects missing happens-before on executed paths only; absence of reports is not absence of races.',
    jobs=q(
        [dict(target='races-off', family='races_off', mode='random', cases=600, workers=8, timeout=900, racy=True),
         dict(target='races-thr', family='races_thread', mode='random', cases=600, workers=8, timeout=900, racy=True)],
        [dict(target='races-off', family='races_off', mode='random', cases=6000, workers=8, timeout=3000, racy=True),
         dict(target='races-thr', family='races_thread', mode='random', cases=6000, workers=8, timeout=3000, racy=True)]),
)

# Additions made after the seeded rounds (appended to the level texts above; see DESIGN.md section 11)
_EXTRA = {
    'C01': 'Producer kinds include a Set whose value construction throws (then drop / Set again) and a Promise overwritten '
           'by move-assignment; consumer kinds include an overwritten Future and a Future returned from a continuation '
           'of another chain (flattening) consumed by DetachInline or Get.',
    'C06': 'The fulfiller may first call Set with a value whose construction throws (the SharedPromise must stay valid).',
    'C19': 'A volatile-qualified pass covers the overloads that instantiate (load, store, exchange, conversion, fetch_*), '
           'and the 45 named aliases are compared with std\'s by the type of load().',
    'C17': 'Programs also contain try-once weak CAS bursts and timed locks with a timeout that really fires; the virtual '
           'time that elapses during each step is part of the compared results.',
    'C07': 'Jobs may re-submit a child from Call or Drop, odd submitters may feed the inner strand of a 2-strand stack '
           'directly, and a finished job node may be submitted a second time (stale next link).',
    'C08': 'Under SoftStop a job submitted from inside a running job (Submit returned before the closing Stop began) is '
           'never Dropped.',
    'C14': 'Lock forms also include the guard-object API (deferred guard, guard.TryLock / Lock / Release, a give-up path '
           'that drops a guard which does not own the lock).',
    'C15': 'Forms also include deferred UniqueGuard / SharedGuard objects with guard.TryLock / Lock and a give-up path.',
    'C13': 'Also generated: an executor stopped by the coroutine itself while it runs on it (then On / kYield / AwaitOn), '
           'awaited futures completed by other coroutines reaching their end, Await(task) on an lvalue incl. destroying '
           'the completed Task, co_return of a value whose copy throws (Future / Task / SharedFuture coroutines), '
           'executor 1 as a Strand over its pool, awaited contracts that carry executor 1 (MakeContractOn).',
    'C12': 'Heads also include coroutine Tasks (frame-owned Tracked parameter) and LazyContract; the Await start mode also reads the Result in place and destroys the completed Task.',
    'C20': 'Wait ranges cover Future and FutureOn handles (value and void); step functors carry a heap-owning copyable '
           'capture moved in from outside the measured window, so a copied functor costs a visible block.',
    'C05': '(c) chains over the library\'s real executors (pool, strands, manual) incl. a RunShared source with inherited '
           'Then(f) / Subscribe(f): an accepted Then(e, f) / Then(f) step never runs inline in the attaching or fulfilling '
           'fiber, refused steps see StopError and the chain completes.',
    'C02': 'Returned Tasks include Schedule(e) heads (also as two-core chains) on the step\'s own or the other executor; '
           'eager sources include AsyncContract with a Promise-taking functor.',
}
for _k, _t in _EXTRA.items():
    PROPS[_k]['level_text'] = PROPS[_k]['level_text'].rstrip() + ' ' + _t
