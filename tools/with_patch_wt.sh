#!/bin/bash
# Like with_patch.sh but never touches /repo: the patch is applied in a scratch worktree (/tmp/wt_m) that the check
# builds from (VERIF_REPO) into its own build directory (VERIF_BUILD). Safe while background runs use /repo.
# usage: tools/with_patch_wt.sh <patch.diff> <command...>
set -u
PATCH=$(realpath "$1"); shift
# one user at a time: concurrent callers would swap patches under each other
exec 9>/tmp/wt_m.lock; flock 9
WT=/tmp/wt_m
if [ ! -d $WT ]; then git -C /repo worktree add -q --detach $WT HEAD || exit 2; fi
cd $WT || exit 2
git checkout -q --detach "$(git -C /repo rev-parse HEAD)" 2>/dev/null
git checkout -q -- . ; git clean -fdq
git apply "$PATCH" || { echo "patch does not apply" >&2; exit 2; }
trap 'git -C /tmp/wt_m checkout -q -- . ; git -C /tmp/wt_m clean -fdq' EXIT
cd /verif
export VERIF_REPO=$WT VERIF_BUILD=/tmp/wt_m_build VERIF_EVIDENCE_DIR=/verif/work/patched-evidence VERIF_WORK=/verif/work/wt
"$@"
