#!/bin/bash
# usage: tools/with_patch.sh <patch.diff> <command...>   - applies the patch to /repo, runs the command, always reverts
set -u
PATCH=$(realpath "$1"); shift
cd /repo || exit 2
if ! git diff --quiet; then echo "/repo working tree is dirty; refusing" >&2; exit 2; fi
git apply "$PATCH" || { echo "patch does not apply" >&2; exit 2; }
trap 'git -C /repo checkout -- . ; git -C /repo clean -fdq -- include src' EXIT
cd /verif
# evidence of runs against a patched tree must never overwrite the committed evidence
export VERIF_EVIDENCE_DIR=/verif/work/patched-evidence
"$@"
rc=$?
exit $rc
