"""Delta debugging of a saved case (text form) for failures that kill the worker process.
Candidates are run as `worker --replay file` in fresh processes, several in parallel."""
import os
import subprocess
from concurrent.futures import ThreadPoolExecutor


def parse(text):
    d = {'family': '', 'hdr': [], 'recw': 1, 'prog': [], 'tape': [], 'dfs': []}
    for line in text.splitlines():
        w = line.split()
        if not w or w[0].startswith('#'):
            continue
        if w[0] == 'family':
            d['family'] = w[1]
        elif w[0] == 'recw':
            d['recw'] = int(w[1])
        elif w[0] in ('hdr', 'prog', 'tape', 'dfs'):
            d[w[0]] = [int(x) for x in w[1:]]
    return d


def fmt(d):
    return (f'family {d["family"]}\nhdr {" ".join(map(str, d["hdr"]))}\nrecw {d["recw"]}\n'
            f'prog {" ".join(map(str, d["prog"]))}\ntape {" ".join(map(str, d["tape"]))}\n' +
            (f'dfs {" ".join(map(str, d["dfs"]))}\n' if d['dfs'] else ''))


def shrink(exe, text, env, expect, workdir, budget=400):
    d = parse(text)
    if d['dfs']:
        return fmt(d)  # schedule given as DFS decisions: program and schedule are not independently shrinkable
    counter = [0]

    def fails(cand):
        counter[0] += 1
        path = os.path.join(workdir, f'shrink-{counter[0]}.case')
        open(path, 'w').write(fmt(cand))
        try:
            r = subprocess.run([exe, '--replay', path], stdout=subprocess.DEVNULL, stderr=subprocess.DEVNULL, env=env,
                               timeout=60)
            rc = r.returncode
        except subprocess.TimeoutExpired:
            rc = 0
        finally:
            try:
                os.unlink(path)
            except OSError:
                pass
        return rc not in (0, 2)

    def try_all(cands):
        """first failing candidate (evaluated in parallel batches)"""
        with ThreadPoolExecutor(max_workers=8) as ex:
            res = list(ex.map(fails, cands))
        for c, f in zip(cands, res):
            if f:
                return c
        return None

    changed = True
    while changed and counter[0] < budget:
        changed = False
        # 1. tape: truncate, then zero chunks
        t = d['tape']
        cands = []
        for keep in (0, len(t) // 4, len(t) // 2, len(t) * 3 // 4, len(t) - 1):
            if 0 <= keep < len(t):
                c = dict(d)
                c['tape'] = t[:keep]
                cands.append(c)
        got = try_all(cands) if cands else None
        if got:
            d = got
            changed = True
            continue
        nz = [i for i, b in enumerate(d['tape']) if b != 0]
        cands = []
        for i in nz[:24]:
            c = dict(d)
            c['tape'] = list(d['tape'])
            c['tape'][i] = 0
            cands.append(c)
        got = try_all(cands) if cands else None
        if got:
            d = got
            changed = True
            continue
        # 2. program: remove records
        w = max(1, d['recw'])
        n = len(d['prog']) // w
        cands = []
        for i in range(n):
            c = dict(d)
            c['prog'] = d['prog'][:i * w] + d['prog'][(i + 1) * w:]
            cands.append(c)
        got = try_all(cands[:32]) if cands else None
        if got:
            d = got
            changed = True
            continue
        # 3. header and record fields towards zero
        cands = []
        for i, h in enumerate(d['hdr']):
            if h != 0:
                c = dict(d)
                c['hdr'] = list(d['hdr'])
                c['hdr'][i] = 0
                cands.append(c)
        for i, v in enumerate(d['prog']):
            if v != 0 and len(cands) < 32:
                c = dict(d)
                c['prog'] = list(d['prog'])
                c['prog'][i] = 0
                cands.append(c)
        got = try_all(cands) if cands else None
        if got:
            d = got
            changed = True
    return fmt(d)
