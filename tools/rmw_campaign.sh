#!/bin/bash
# Atomicity-splitting campaign for the fiber checks: every exchange / fetch_add / fetch_sub of the library (outside the
# fault layer) is split into load + store and every compare_exchange_strong is weakened to one compare_exchange_weak,
# one site at a time, in a scratch worktree; the quick checks of the properties anchored in that file must report it
# or the survivor is analysed by hand (DESIGN.md section 11). usage: tools/rmw_campaign.sh <dir with index.txt>
cd /verif
DIR=$1
mkdir -p work
while read -r f props; do
  n=$(basename $f .diff)
  grep -q "^$n " work/rmw_campaign.log 2>/dev/null && continue
  res=SURVIVED; by=""; t0=$(date +%s)
  for p in $props; do
    out=$(VERIF_STOP_AT_FIRST=1 tools/with_patch_wt.sh $DIR/$f ./check $p 2>&1); rc=$?
    if echo "$out" | grep -q "^VIOLATION property=$p"; then res=caught; by=$p; why=$(echo "$out" | grep -m1 'reason:' | cut -c1-100); break; fi
    if [ $rc -ne 0 ]; then res="ERROR(rc=$rc,$p)"; echo "$out" | tail -5 > work/rmw-$n.err; fi
  done
  t1=$(date +%s)
  echo "$n $res $by $((t1-t0))s $why" >> work/rmw_campaign.log; why=""
done < $DIR/index.txt
echo "RMW-DONE" >> work/rmw_campaign.log
