#!/bin/bash
# Memory-order weakening campaign for C04: every acquire / release / acq_rel / seq_cst site of the library (outside the
# fault layer) is weakened to relaxed, one at a time, in a scratch worktree; ./check C04 must report it (TSan) or the
# survivor is analysed by hand (DESIGN.md section 11). usage: tools/mo_campaign.sh <dir with *.diff> [pattern]
cd /verif
DIR=$1; PAT=${2:-_to_relaxed}
mkdir -p work
for d in $DIR/*$PAT*.diff; do
  n=$(basename $d .diff)
  grep -q "^$n " work/mo_campaign.log 2>/dev/null && continue
  t0=$(date +%s)
  out=$(VERIF_STOP_AT_FIRST=1 tools/with_patch_wt.sh $d ./check C04 2>&1); rc=$?
  t1=$(date +%s)
  if echo "$out" | grep -q "^VIOLATION property=C04"; then r=caught; elif [ $rc -eq 0 ]; then r=SURVIVED; else r="ERROR(rc=$rc)"; fi
  echo "$n $r $((t1-t0))s $(echo "$out" | grep -m1 'reason:' | cut -c1-100)" >> work/mo_campaign.log
done
echo "MO-DONE $PAT" >> work/mo_campaign.log
