#!/usr/bin/env python3
"""Generates the patch set of the atomicity-splitting campaign (tools/rmw_campaign.sh): exchange / fetch_add / fetch_sub
split into load + store, compare_exchange_strong turned into one compare_exchange_weak, one patch per site, plus
index.txt mapping each patch to the properties whose quick checks must catch it.
usage: cd <checkout of /repo> && python3 /verif/tools/gen_rmw_patches.py <outdir>"""
import os, re, subprocess, sys
out = sys.argv[1]
os.makedirs(out, exist_ok=True)
files = subprocess.run("grep -rlE '\\.(exchange|fetch_add|fetch_sub|compare_exchange_strong)\\(' include/yaclib src --include=*.hpp "
                       "--include=*.cpp | grep -v '/fault/'", shell=True, capture_output=True, text=True).stdout.split()
PROP = {'base_core': 'C01 C06 C11', 'strand': 'C07', 'one_shot_event': 'C16', 'shared_mutex': 'C15', '/mutex': 'C14',
        'when/all': 'C09', 'when/join': 'C09', 'when/any': 'C10', 'all_tuple': 'C09', 'atomic_counter': 'C13 C09 C06',
        'await_awaiter': 'C13', 'wait_group': 'C16', 'shared_event': 'C13 C11', 'wait_impl': 'C11', 'spinlock': 'C15'}
n, index = 0, []
for f in files:
    lines = open(f).read().split('\n')
    for ln, line in enumerate(lines):
        muts = []
        m = re.search(r'(\b[\w\.\->]+?)\.exchange\(([^,]+), (std::memory_order_\w+)\)', line)
        if m:
            rep = (f'[&] {{ auto old_ = {m.group(1)}.load(std::memory_order_relaxed); {m.group(1)}.store({m.group(2)}, '
                   f'std::memory_order_relaxed); return old_; }}()')
            muts.append(('xchg_split', line[:m.start()] + rep + line[m.end():]))
        m = re.search(r'(\b[\w\.\->]+?)\.fetch_(add|sub)\(([^,]+), (std::memory_order_\w+)\)', line)
        if m:
            op = '+' if m.group(2) == 'add' else '-'
            rep = (f'[&] {{ auto old_ = {m.group(1)}.load(std::memory_order_relaxed); {m.group(1)}.store(old_ {op} ({m.group(3)}), '
                   f'std::memory_order_relaxed); return old_; }}()')
            muts.append((f'fetch_{m.group(2)}_split', line[:m.start()] + rep + line[m.end():]))
        if 'compare_exchange_strong(' in line:
            muts.append(('strong_to_weak', line.replace('compare_exchange_strong(', 'compare_exchange_weak(', 1)))
        for name, nl in muts:
            n += 1
            new = list(lines)
            new[ln] = nl
            open(os.path.join(out, 'tmp_new'), 'w').write('\n'.join(new))
            d = subprocess.run(['diff', '-u', '--label', 'a/' + f, '--label', 'b/' + f, f, os.path.join(out, 'tmp_new')],
                               capture_output=True, text=True).stdout
            props = [v for k, v in PROP.items() if k in f]
            fn = f"{n:03d}_{os.path.basename(f).replace('.', '_')}_{ln + 1}_{name}.diff"
            open(os.path.join(out, fn), 'w').write(d)
            index.append(f"{fn} {props[0] if props else 'C01'}")
open(os.path.join(out, 'index.txt'), 'w').write('\n'.join(index) + '\n')
print(n, 'patches in', out)
