#!/usr/bin/env python3
"""Incremental out-of-tree builds of YACLib configurations and harness binaries.

Everything is rebuilt from /repo's *working tree* (cmake/ninja + depfiles decide what is stale), output goes to
/verif/build/<cfg>. A file lock per cfg serialises concurrent builds.

  tools/build.py <target> [<target> ...]     e.g. handoff, pipeline, tsan-races ...
  tools/build.py --all
"""
import fcntl
import os
import subprocess
import sys

VERIF = os.path.dirname(os.path.dirname(os.path.abspath(__file__)))
REPO = os.environ.get('VERIF_REPO', '/repo')
BUILD = os.environ.get('VERIF_BUILD', os.path.join(VERIF, 'build'))

# library configurations --------------------------------------------------------------------------------------
CFG = {
    # name: (cmake args, extra CXX flags, compiler)
    'fib': dict(cxx='g++', fault='FIBER', flags='CORO;ASAN', cxxflags='-O1 -g1 -DYACLIB_VERIF', std='20'),
    'fib-nost': dict(cxx='g++', fault='FIBER', flags='CORO;ASAN;DISABLE_SYMMETRIC_TRANSFER',
                     cxxflags='-O1 -g1 -DYACLIB_VERIF', std='20'),
    'off': dict(cxx='g++', fault='OFF', flags='CORO;ASAN', cxxflags='-O1 -g1 -DYACLIB_VERIF', std='20'),
    'thr': dict(cxx='g++', fault='THREAD', flags='CORO;ASAN', cxxflags='-O1 -g1 -DYACLIB_VERIF', std='20'),
    'tsan-off': dict(cxx='g++', fault='OFF', flags='CORO;TSAN', cxxflags='-O1 -g1 -DYACLIB_VERIF', std='20'),
    'tsan-thr': dict(cxx='g++', fault='THREAD', flags='CORO;TSAN', cxxflags='-O1 -g1 -DYACLIB_VERIF', std='20'),
    'fib-dbg': dict(cxx='g++', fault='FIBER', flags='CORO;ASAN',
                    cxxflags='-O1 -g1 -DYACLIB_VERIF -D_GLIBCXX_DEBUG', std='20'),
    'fuzz-fib': dict(cxx='clang++', fault='FIBER', flags='CORO;ASAN',
                     cxxflags='-O1 -g1 -DYACLIB_VERIF -fsanitize=fuzzer-no-link', std='20'),
    'fuzz-off': dict(cxx='clang++', fault='OFF', flags='CORO;ASAN',
                     cxxflags='-O1 -g1 -DYACLIB_VERIF -fsanitize=fuzzer-no-link', std='20'),
}

ASAN = '-fsanitize=address -fsanitize-address-use-after-scope -fno-omit-frame-pointer'
TSAN = '-fsanitize=thread -fno-omit-frame-pointer'
# signed overflow is excluded: std::atomic arithmetic is defined to wrap, the oracle is the value comparison
UBSAN = '-fsanitize=undefined -fno-sanitize=signed-integer-overflow -fno-sanitize-recover=undefined'
COMMON = '-std=c++20 -fcoroutines -DYACLIB_VERIF -Wno-attributes'

# harness binaries ----------------------------------------------------------------------------------------------
# name: (cfg, [sources], compile flags, link flags)
TARGETS = {
    'handoff': dict(cfg='fib', src=['harness/handoff.cpp'], cflags=f'-O1 -g1 {ASAN}', libs='-lrapidcheck'),
}


def load_extra_targets():
    """Targets are declared next to their sources in harness/targets.py so adding a family does not touch this file."""
    path = os.path.join(VERIF, 'harness', 'targets.py')
    if os.path.exists(path):
        ns = {'ASAN': ASAN, 'TSAN': TSAN, 'UBSAN': UBSAN, 'COMMON': COMMON}
        exec(open(path).read(), ns)
        TARGETS.update(ns.get('TARGETS', {}))
        CFG.update(ns.get('CFG', {}))


def run(cmd, **kw):
    r = subprocess.run(cmd, stdout=subprocess.PIPE, stderr=subprocess.STDOUT, text=True, **kw)
    if r.returncode != 0:
        sys.stdout.write(r.stdout[-6000:])
        raise SystemExit(f'build step failed: {cmd if isinstance(cmd, str) else " ".join(cmd)}')
    return r.stdout


def build_lib(cfg):
    c = CFG[cfg]
    d = os.path.join(BUILD, cfg)
    os.makedirs(d, exist_ok=True)
    if not os.path.exists(os.path.join(d, 'build.ninja')):
        run(['cmake', '-G', 'Ninja', '-S', REPO, '-B', d, '-DCMAKE_BUILD_TYPE=Debug',
             f'-DCMAKE_CXX_COMPILER={c["cxx"]}', f'-DYACLIB_CXX_STANDARD={c["std"]}', f'-DYACLIB_FAULT={c["fault"]}',
             f'-DYACLIB_FLAGS={c["flags"]}', f'-DCMAKE_CXX_FLAGS={c["cxxflags"]}'])
    run(['cmake', '--build', d])
    return os.path.join(d, 'src', 'libyaclib.a')


def ninja_escape(s):
    return s.replace('$', '$$').replace(':', '$:').replace(' ', '$ ')


def build_targets(names):
    by_cfg = {}
    for n in names:
        if n not in TARGETS:
            raise SystemExit(f'unknown target {n}; known: {", ".join(sorted(TARGETS))}')
        by_cfg.setdefault(TARGETS[n]['cfg'], []).append(n)
    for cfg, tnames in by_cfg.items():
        os.makedirs(os.path.join(BUILD, cfg), exist_ok=True)
        lock = open(os.path.join(BUILD, cfg, '.lock'), 'w')
        fcntl.flock(lock, fcntl.LOCK_EX)
        try:
            lib = build_lib(cfg)
            hdir = os.path.join(BUILD, cfg, 'h')
            os.makedirs(hdir, exist_ok=True)
            c = CFG[cfg]
            cxx = c['cxx']
            inc = f'-I{REPO}/include -I{REPO}/src -I{BUILD}/{cfg}/include -I{VERIF}/harness'
            # one ninja file per cfg containing every target of that cfg (so object files are shared)
            lines = ['ninja_required_version = 1.5',
                     'rule cxx',
                     '  command = $cxx $flags -MMD -MF $out.d -c $in -o $out',
                     '  depfile = $out.d',
                     '  deps = gcc',
                     '  description = CXX $out',
                     'rule link',
                     '  command = $cxx $flags $in $libs -o $out',
                     '  description = LINK $out', '']
            for n, t in TARGETS.items():
                if t['cfg'] != cfg:
                    continue
                tcxx = t.get('cxx', cxx)
                std = COMMON if tcxx == 'g++' else COMMON.replace('-fcoroutines', '')
                objs = []
                for s in t['src']:
                    o = os.path.join(hdir, n + '__' + s.replace('/', '_') + '.o')
                    objs.append(o)
                    lines += [f'build {ninja_escape(o)}: cxx {ninja_escape(os.path.join(VERIF, s))}',
                              f'  cxx = {tcxx}',
                              f'  flags = {std} {t.get("cflags", "")} {t.get("defs", "")} {inc}']
                exe = os.path.join(hdir, n)
                lines += [f'build {ninja_escape(exe)}: link {" ".join(ninja_escape(o) for o in objs)} '
                          f'{ninja_escape(lib) if t.get("link_lib", True) else ""}',
                          f'  cxx = {tcxx}',
                          f'  flags = {t.get("cflags", "")} {t.get("lflags", "")}',
                          f'  libs = {t.get("libs", "")} -pthread', '']
            nf = os.path.join(hdir, 'build.ninja')
            new = '\n'.join(lines) + '\n'
            if not os.path.exists(nf) or open(nf).read() != new:
                open(nf, 'w').write(new)
            run(['ninja', '-C', hdir] + [os.path.join(hdir, n) for n in tnames])
        finally:
            fcntl.flock(lock, fcntl.LOCK_UN)
            lock.close()
    return {n: os.path.join(BUILD, TARGETS[n]['cfg'], 'h', n) for n in names}


def main():
    load_extra_targets()
    args = sys.argv[1:]
    if args == ['--all']:
        args = sorted(TARGETS)
    if args and args[0] == '--lib':
        for cfg in args[1:]:
            print(build_lib(cfg))
        return
    for n, p in build_targets(args).items():
        print(n, p)


if __name__ == '__main__':
    main()
