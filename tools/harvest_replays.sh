#!/bin/bash
# For every seeded change: run the checks that catch it against a patched scratch worktree, keep the first minimal
# failing case as replays/<property>/seeded-<id>.case if it PASSES on the unchanged tree (regression corpus).
cd /verif
for d in seeded/*/; do
  id=$(basename $d)
  for prop in $(python3 -c "import json;print(' '.join(json.load(open('$d/meta.json'))['caught_by_quick_checks'][:1 if '$FIRST_ONLY'=='1' else None]))" 2>/dev/null); do
    [ "$prop" = "C04" ] && continue   # real-thread races: no deterministic replay
    [ -f replays/$prop/seeded-$id.case ] && continue
    out=$(VERIF_STOP_AT_FIRST=1 tools/with_patch_wt.sh $d/patch.diff ./check $prop 2>&1 | grep -m1 "^VIOLATION" | sed 's/.*replay=//')
    [ -z "$out" ] || [ ! -f "$out" ] && { echo "$id/$prop: no violation file"; continue; }
    mkdir -p replays/$prop
    grep -v "^#" "$out" > /tmp/harvest.case
    if ./check --replay /tmp/harvest.case >/dev/null 2>&1; then
      cp /tmp/harvest.case replays/$prop/seeded-$id.case; echo "$id/$prop: kept"
    else
      echo "$id/$prop: case does not pass on the unchanged tree (skipped)"
    fi
  done
done
