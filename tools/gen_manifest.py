#!/usr/bin/env python3
"""Regenerates /verif/MANIFEST.json from tools/props.py (single source of truth for what is claimed)."""
import json
import os
import sys

VERIF = os.path.dirname(os.path.dirname(os.path.abspath(__file__)))
sys.path.insert(0, os.path.join(VERIF, 'tools'))
import props  # noqa: E402

ids = [json.loads(l)['id'] for l in open(os.path.join(VERIF, 'properties.jsonl'))]
checks, na = [], []
for pid in ids:
    p = props.PROPS.get(pid)
    if p is None or not p.get('claimed', True):
        na.append(dict(property_id=pid, reason=props.NOT_CLAIMED.get(pid, 'check not built yet in this session')))
        continue
    checks.append(dict(
        property_id=pid,
        quick_cmd=f'./check {pid} --tier quick',
        thorough_cmd=f'./check {pid} --tier thorough',
        evidence_file=f'/verif/evidence/{pid}.json',
        replay_cmd_template='./check --replay {path}',
        engine=p.get('engine', 'rapidcheck + explorer'),
        level_claimed=dict(category=p.get('level', 'exploration'), text=p['level_text'],
                           design_ref=p.get('design_ref', f'DESIGN.md section 3, {pid}')),
        level_note=p['level_note'],
        technique=p['technique'],
    ))
engines = [
    dict(name='rapidcheck + explorer', path='harness/common',
         serves_properties=[c['property_id'] for c in checks],
         kind_free_text='rapidcheck generators/shrinking over Case records; the explorer owns every scheduling '
                        'decision of the YACLib fiber back end through the YACLIB_VERIF hook (random tapes and '
                        'bounded-exhaustive DFS); ASan in every build'),
]
m = dict(
    version=1,
    setup_cmd='python3 tools/build.py --all',
    hooks=dict(
        guard='YACLIB_VERIF',
        enable='checks configure out-of-tree builds of /repo with -DCMAKE_CXX_FLAGS=-DYACLIB_VERIF (tools/build.py) '
               'and compile the harness with -DYACLIB_VERIF',
        baseline_off_cmd='cmake --build /repo/_build && ctest --test-dir /repo/_build -j8 --timeout 900',
        source_commits=props.HOOK_COMMITS,
        add_only=True,
    ),
    engines=engines,
    checks=checks,
    not_applicable=na,
    notes='Property-based testing / fuzzing only. ./check <id> rebuilds from /repo working tree, runs saved replays, '
          'generated search, shrinks, confirms 3x, then prints VIOLATION or KNOWN-FINDING lines. '
          'known_findings.txt lists fixed and known findings. See DESIGN.md.',
)
json.dump(m, open(os.path.join(VERIF, 'MANIFEST.json'), 'w'), indent=1)
print('claimed', [c['property_id'] for c in checks])
print('not claimed', [n['property_id'] for n in na])
