#!/usr/bin/env python3
"""Generates the patch set of the memory-order campaign (tools/mo_campaign.sh): every acquire / release / acq_rel /
seq_cst site of the library outside the fault layer weakened to relaxed (and acq_rel also to its two halves), one
patch per site.  usage: cd <checkout of /repo> && python3 /verif/tools/gen_mo_patches.py <outdir>"""
import os, re, subprocess, sys
out = sys.argv[1]
os.makedirs(out, exist_ok=True)
sites = subprocess.run("grep -rn 'memory_order_\\(acquire\\|release\\|acq_rel\\|seq_cst\\)' include/yaclib src --include=*.hpp "
                       "--include=*.cpp | grep -v '/fault/'", shell=True, capture_output=True, text=True).stdout.strip().split('\n')
n = 0
for s in sites:
    f, ln, _ = s.split(':', 2)
    ln = int(ln)
    if 'atomic_event.cpp' in f:
        continue
    lines = open(f).read().split('\n')
    line = lines[ln - 1]
    for k, m in enumerate(re.finditer(r'memory_order_(acquire|release|acq_rel|seq_cst)', line)):
        variants = [('relaxed', line[:m.start()] + 'memory_order_relaxed' + line[m.end():])]
        if m.group(1) == 'acq_rel':
            variants.append(('release', line[:m.start()] + 'memory_order_release' + line[m.end():]))
            variants.append(('acquire', line[:m.start()] + 'memory_order_acquire' + line[m.end():]))
        for vn, nl in variants:
            n += 1
            name = f"{os.path.basename(f).replace('.', '_')}_{ln}_{k}_{m.group(1)}_to_{vn}"
            new = list(lines)
            new[ln - 1] = nl
            open(os.path.join(out, 'tmp_new'), 'w').write('\n'.join(new))
            d = subprocess.run(['diff', '-u', '--label', 'a/' + f, '--label', 'b/' + f, f, os.path.join(out, 'tmp_new')],
                               capture_output=True, text=True).stdout
            open(os.path.join(out, f'{n:03d}_{name}.diff'), 'w').write(d)
print(n, 'patches in', out)
