// C20 (second half): combinators allocate a number of blocks independent of the number of inputs; Wait / WaitFor /
// WaitUntil on plain futures, Future::Get, Strand submission of an existing job and co_await of futures allocate nothing.
// FAULT=OFF build, operator new counted per OS thread.
#define VF_LEDGER_IMPL
#include "common/driver.hpp"
#include "common/ledger.hpp"

#include <yaclib/async/contract.hpp>
#include <yaclib/async/join.hpp>
#include <yaclib/async/make.hpp>
#include <yaclib/lazy/make.hpp>
#include <yaclib/lazy/task.hpp>
#include <yaclib/async/wait.hpp>
#include <yaclib/async/wait_for.hpp>
#include <yaclib/async/wait_until.hpp>
#include <yaclib/async/when_all.hpp>
#include <yaclib/async/when_any.hpp>
#include <yaclib/coro/await.hpp>
#include <yaclib/coro/future.hpp>
#include <yaclib/exe/manual.hpp>
#include <yaclib/exe/strand.hpp>

#include <chrono>
#include <cstdio>
#include <string>
#include <thread>
#include <vector>

namespace {

using vf::Case;
using vf::Explorer;
using vf::Verdict;
using yaclib::FailPolicy;
using namespace std::chrono_literals;

const int kSizes[] = {1, 2, 3, 4, 8, 16, 64, 256};
enum Kind { kWhenAll, kWhenAny, kJoin, kWait, kGet, kStrand, kCoAwait, kValueMoves, kKindN };
const char* const kKindName[] = {"WhenAll", "WhenAny", "Join", "Wait/WaitFor/WaitUntil", "Future::Get", "Strand::Submit",
                                 "co_await / Await", "rvalue values move"};

struct TJob final : yaclib::Job {
  int calls = 0;
  yaclib::IExecutor* to = nullptr;  // submit `next` from inside Call (the strand is running a batch at that moment)
  TJob* next = nullptr;
  void Call() noexcept final {
    ++calls;
    if (to != nullptr && next != nullptr) {
      to->Submit(*next);
    }
  }
  void Drop() noexcept final {
  }
};

// a copyable value that owns a heap block: moved through the library it costs nothing, copied it costs a block
struct HeapVal {
  int* p = nullptr;
  HeapVal() = default;
  explicit HeapVal(int v) : p{new int{v}} {
  }
  HeapVal(const HeapVal& o) : p{o.p != nullptr ? new int{*o.p} : nullptr} {
  }
  HeapVal(HeapVal&& o) noexcept : p{std::exchange(o.p, nullptr)} {
  }
  HeapVal& operator=(HeapVal o) noexcept {
    std::swap(p, o.p);
    return *this;
  }
  ~HeapVal() {
    delete p;
  }
};

long g_inside_coro_news = -1;
yaclib::Future<int> CoAwaitOne(yaclib::Future<int> f, yaclib::Future<int>& g, yaclib::Future<int>& h, int form) {
  const long n0 = vf::L().news;
  int acc = 0;
  if (form == 0) {
    acc = co_await std::move(f);
  } else if (form == 1) {
    co_await Await(g);
  } else {
    co_await Await(g, h);
  }
  g_inside_coro_news = vf::L().news - n0;
  co_return acc;
}

template <FailPolicy F>
long CountCombinator(int kind, int form, int n, int fail_at, bool pending) {
  // inputs are prepared outside the measured window
  std::vector<yaclib::Future<int>> fs;
  std::vector<yaclib::Future<void>> fv;
  std::vector<yaclib::Promise<int>> ps;
  std::vector<yaclib::Promise<void>> pv;
  fs.reserve(static_cast<std::size_t>(n));
  fv.reserve(static_cast<std::size_t>(n));
  ps.reserve(static_cast<std::size_t>(n));
  pv.reserve(static_cast<std::size_t>(n));
  for (int i = 0; i < n; ++i) {
    if (kind == kJoin || form == 2) {
      auto [f, p] = yaclib::MakeContract<void>();
      fv.push_back(std::move(f));
      pv.push_back(std::move(p));
    } else {
      auto [f, p] = yaclib::MakeContract<int>();
      fs.push_back(std::move(f));
      ps.push_back(std::move(p));
    }
  }
  auto complete = [&] {
    for (int i = 0; i < n; ++i) {
      if (!fv.empty() || !pv.empty()) {
        if (i == fail_at || (fail_at == -2 && i % 2 == 1)) {
          std::move(pv[static_cast<std::size_t>(i)]).Set(yaclib::StopTag{});
        } else {
          std::move(pv[static_cast<std::size_t>(i)]).Set();
        }
      } else if (i == fail_at || (fail_at == -2 && i % 2 == 1)) {
        std::move(ps[static_cast<std::size_t>(i)]).Set(yaclib::StopTag{});
      } else {
        std::move(ps[static_cast<std::size_t>(i)]).Set(i);
      }
    }
  };
  if (!pending) {
    complete();
  }
  const long n0 = vf::L().news;
  if (kind == kJoin || form == 2) {
    yaclib::Future<void> out;
    if constexpr (F != FailPolicy::LastFail) {
      if (kind == kJoin) {
        out = yaclib::Join<F>(fv.begin(), static_cast<std::size_t>(n));
      } else {
        if constexpr (F == FailPolicy::FirstFail) {
          out = yaclib::WhenAll<F>(fv.begin(), fv.end());
        } else {
          out = yaclib::Join<F>(fv.begin(), fv.end());
        }
      }
    }
    if (pending) {
      complete();
    }
    if (out.Valid()) {
      (void)std::move(out).Get();
    }
  } else if (kind == kWhenAll) {
    if constexpr (F == FailPolicy::FirstFail) {
      auto out = yaclib::WhenAll<F>(fs.begin(), static_cast<std::size_t>(n));
      if (pending) {
        complete();
      }
      (void)std::move(out).Get();
    } else if constexpr (F == FailPolicy::None) {
      auto out = yaclib::WhenAll<F>(fs.begin(), fs.end());
      if (pending) {
        complete();
      }
      (void)std::move(out).Get();
    }
  } else {
    auto out = yaclib::WhenAny<F>(fs.begin(), static_cast<std::size_t>(n));
    if (pending) {
      complete();
    }
    (void)std::move(out).Get();
  }
  return vf::L().news - n0;
}

long Combinator(int kind, int policy, int form, int n, int fail_at, bool pending) {
  if (policy == 0) {
    return CountCombinator<FailPolicy::None>(kind, form, n, fail_at, pending);
  }
  if (policy == 1 || kind != kWhenAny) {
    return CountCombinator<FailPolicy::FirstFail>(kind, form, n, fail_at, pending);
  }
  return CountCombinator<FailPolicy::LastFail>(kind, form, n, fail_at, pending);
}

template <typename F, typename V>
long WaitCase(int n, int policy, int form, bool pending, int& m_out) {
  const int m = n > 16 ? 16 : n;
  m_out = m;
  std::vector<F> fs;
  std::vector<yaclib::Promise<V>> ps;
  for (int i = 0; i < m; ++i) {
    if constexpr (std::is_same_v<F, yaclib::FutureOn<V>>) {
      auto [f, p] = yaclib::MakeContractOn<V>(yaclib::MakeInline());
      fs.push_back(std::move(f));
      ps.push_back(std::move(p));
    } else {
      auto [f, p] = yaclib::MakeContract<V>();
      fs.push_back(std::move(f));
      ps.push_back(std::move(p));
    }
  }
  auto set_all = [&ps] {
    for (auto& p : ps) {
      if constexpr (std::is_void_v<V>) {
        std::move(p).Set();
      } else {
        std::move(p).Set(1);
      }
    }
  };
  std::thread producer;
  if (pending) {
    producer = std::thread([&] {
      std::this_thread::sleep_for(300us);
      set_all();
    });
  } else {
    set_all();
  }
  const long n0 = vf::L().news;
  switch (policy * 3 + form) {
    case 0:
      yaclib::Wait(fs.begin(), fs.end());
      break;
    case 1:
      yaclib::Wait(fs.begin(), fs.size());
      break;
    case 2:
      if (m >= 2) {
        yaclib::Wait(fs[0], fs[1]);
      } else {
        yaclib::Wait(fs[0]);
      }
      break;
    case 3:
      (void)yaclib::WaitFor(5s, fs.begin(), fs.end());
      break;
    case 4:
      (void)yaclib::WaitFor(5s, fs.begin(), fs.size());
      break;
    case 5:
      (void)(m >= 2 ? yaclib::WaitFor(5s, fs[0], fs[1]) : yaclib::WaitFor(5s, fs[0]));
      break;
    case 6:
      (void)yaclib::WaitUntil(std::chrono::steady_clock::now() + 5s, fs.begin(), fs.end());
      break;
    case 7:
      (void)yaclib::WaitUntil(std::chrono::steady_clock::now() + 5s, fs.begin(), fs.size());
      break;
    default:
      (void)(m >= 2 ? yaclib::WaitUntil(std::chrono::steady_clock::now() + 5s, fs[0], fs[1])
                    : yaclib::WaitUntil(std::chrono::steady_clock::now() + 5s, fs[0]));
  }
  const long cnt = vf::L().news - n0;
  if (producer.joinable()) {
    producer.join();
  }
  yaclib::Wait(fs.begin(), fs.end());
  return cnt;
}

class AllocBounds final : public vf::Family {
 public:
  const char* Name() const final {
    return "allocbounds";
  }
  const char* Property() const final {
    return "C20";
  }
  const char* Rule() const final {
    return "case = API (WhenAll | WhenAny | Join in the iterator forms over value / void futures x FailPolicy x ready or "
           "pending inputs x optional failing input | Wait / WaitFor / WaitUntil in variadic and iterator forms over "
           "ready or pending Future / FutureOn handles (value and void) | Future::Get | Strand submission of existing jobs (to the idle strand or from inside a running batch) | heap-owning rvalue values through MakeFuture / MakeTask / Set / ThenInline | co_await f / Await(f) / "
           "Await(f,g)) x n from {1,2,3,4,8,16,64,256}; oracle = operator new calls of a combinator are <= 8 and equal "
           "for n = 16, 64 and 256; waits, Get, strand submit and co_await allocate exactly 0; non-trivial = n >= 16 or "
           "a pending (really blocking / suspending) case; distinct = parameter tuple";
  }
  rc::Gen<Case> Gen() const final {
    return rc::gen::exec([]() {
      Case c;
      c.hdr = {vf::Pick(0, kKindN), vf::Pick(0, 3), vf::Pick(0, 3), vf::Pick(0, 8), vf::Pick(0, 3), vf::Pick(0, 40)};
      return c;
    });
  }
  std::string Describe(const Case& c) const final {
    char b[200];
    std::snprintf(b, sizeof b, "api=%s policy=%d form=%d n=%d pending=%d fail_at=%d", kKindName[c.H(0) % kKindN], c.H(1) % 3,
                  c.H(2) % 3, kSizes[c.H(3) % 8], c.H(4) % 3 == 0 ? 1 : 0, c.H(5) % 40 < 10 ? c.H(5) % 40 : c.H(5) % 40 < 20 ? -2 : -1);
    return b;
  }
  Verdict Run(const Case& c, Explorer&) final {
    Verdict v;
    const int kind = c.H(0) % kKindN, policy = c.H(1) % 3, form = c.H(2) % 3, n = kSizes[c.H(3) % 8];
    const bool pending = c.H(4) % 3 == 0;
    int fail_at = c.H(5) % 40 < 10 ? c.H(5) % 40 : c.H(5) % 40 < 20 ? -2 : -1;  // one input / every odd input / none fails
    if (fail_at >= n) {
      fail_at = n - 1;
    }
    char b[200];
    if (kind == kValueMoves) {
      // a heap-owning value handed to the library as an rvalue travels by move: each construct costs exactly its own block
      HeapVal v0{1}, v1{2}, v2{3}, v3{4};
      const long n0 = vf::L().news;
      long expect = 0;
      const char* what = "";
      switch (c.H(5) % 7) {  // (H(5) is drawn from 0..39)
        case 0: {
          what = "MakeFuture(rvalue)";
          auto f = yaclib::MakeFuture<HeapVal>(std::move(v0));
          expect = 1;
          (void)std::move(f).Get();
          break;
        }
        case 1: {
          what = "MakeTask(rvalue).Get()";
          auto t = yaclib::MakeTask<HeapVal>(std::move(v1));
          expect = 1;
          (void)std::move(t).Get();
          break;
        }
        case 2: {
          what = "MakeContract + Set(rvalue) + Get";
          auto [f, p] = yaclib::MakeContract<HeapVal>();
          std::move(p).Set(std::move(v2));
          expect = 1;
          (void)std::move(f).Get();
          break;
        }
        case 3: {
          what = "MakeFuture(rvalue).ThenInline(pass through).Get()";
          auto f = yaclib::MakeFuture<HeapVal>(std::move(v3)).ThenInline([](HeapVal x) {
            return x;
          });
          expect = 2;
          (void)std::move(f).Get();
          break;
        }
        case 5: {
          what = "MakeFuture(rvalue).ThenInline(exception_ptr recovery, skipped).Get()";
          auto f = yaclib::MakeFuture<HeapVal>(std::move(v1)).ThenInline([](std::exception_ptr) {
            return HeapVal{};
          });
          expect = 2;
          (void)std::move(f).Get();
          break;
        }
        case 6: {
          what = "MakeFuture(rvalue).ThenInline(error recovery, skipped).ThenInline(pass through).Get()";
          auto f = yaclib::MakeFuture<HeapVal>(std::move(v2)).ThenInline([](yaclib::StopError) {
            return HeapVal{};
          }).ThenInline([](HeapVal x) {
            return x;
          });
          expect = 3;
          (void)std::move(f).Get();
          break;
        }
        default: {
          what = "MakeTask(rvalue).ThenInline(pass through).ToFuture().Get()";
          auto f = yaclib::MakeTask<HeapVal>(std::move(v0)).ThenInline([](HeapVal x) {
            return x;
          }).ToFuture();
          expect = 2;
          (void)std::move(f).Get();
        }
      }
      const long cnt = vf::L().news - n0;
      if (cnt != expect) {
        std::snprintf(b, sizeof b, "%s: %ld blocks for %ld constructs (a value given as an rvalue was copied)", what, cnt, expect);
        v.Fail(b);
      }
    } else if (kind <= kJoin) {
      const long cnt = Combinator(kind, policy, form, n, fail_at, pending);
      if (cnt > 8) {
        std::snprintf(b, sizeof b, "%s with n=%d allocated %ld blocks (bound 8)", kKindName[kind], n, cnt);
        v.Fail(b);
      }
      // no growth with n: compare the three large sizes
      const long c16 = Combinator(kind, policy, form, 16, fail_at >= 16 ? 15 : fail_at, pending);
      const long c64 = Combinator(kind, policy, form, 64, fail_at, pending);
      const long c256 = Combinator(kind, policy, form, 256, fail_at, pending);
      if (c16 != c64 || c64 != c256) {
        std::snprintf(b, sizeof b, "%s: blocks allocated grow with the number of inputs: n=16:%ld n=64:%ld n=256:%ld",
                      kKindName[kind], c16, c64, c256);
        v.Fail(b);
      }
    } else if (kind == kWait) {
      // "plain futures" are Future<V> and FutureOn<V>, V possibly void: H(5) picks the handle type of the range
      long cnt = 0;
      int m = 0;
      switch (c.H(5) % 4) {
        case 0:
          cnt = WaitCase<yaclib::Future<int>, int>(n, policy, form, pending, m);
          break;
        case 1:
          cnt = WaitCase<yaclib::FutureOn<int>, int>(n, policy, form, pending, m);
          break;
        case 2:
          cnt = WaitCase<yaclib::Future<void>, void>(n, policy, form, pending, m);
          break;
        default:
          cnt = WaitCase<yaclib::FutureOn<void>, void>(n, policy, form, pending, m);
      }
      if (cnt != 0) {
        std::snprintf(b, sizeof b, "Wait-family call over %d %s allocated %ld blocks (must be 0)", m,
                      c.H(5) % 2 == 0 ? "Future handles" : "FutureOn handles", cnt);
        v.Fail(b);
      }
    } else if (kind == kGet) {
      auto [f, p] = yaclib::MakeContract<int>();
      std::thread producer;
      if (pending) {
        producer = std::thread([p = std::move(p)]() mutable {
          std::this_thread::sleep_for(300us);
          std::move(p).Set(1);
        });
      } else {
        std::move(p).Set(1);
      }
      const long n0 = vf::L().news;
      (void)std::move(f).Get();
      const long cnt = vf::L().news - n0;
      if (producer.joinable()) {
        producer.join();
      }
      if (cnt != 0) {
        std::snprintf(b, sizeof b, "Future::Get allocated %ld blocks (must be 0)", cnt);
        v.Fail(b);
      }
    } else if (kind == kStrand) {
      auto manual = yaclib::MakeManual();
      auto strand = yaclib::MakeStrand(manual);
      std::vector<TJob> jobs(static_cast<std::size_t>(n > 64 ? 64 : n));
      if (form != 0) {
        // each job submits the next existing job while the strand is running (form 1: all chained, form 2: every other)
        for (std::size_t i = 0; i + 1 < jobs.size(); ++i) {
          if (form == 1 || i % 2 == 0) {
            jobs[i].to = strand.Get();
            jobs[i].next = &jobs[i + 1];
          }
        }
      }
      const long n0 = vf::L().news;
      for (std::size_t i = 0; i < jobs.size(); ++i) {
        if (i == 0 || jobs[i - 1].next == nullptr) {
          strand->Submit(jobs[i]);
        }
      }
      while (static_cast<yaclib::ManualExecutor&>(*manual).Drain() != 0) {
      }
      const long cnt = vf::L().news - n0;
      for (auto& j : jobs) {
        if (j.calls != 1) {
          v.Fail("strand job not called exactly once");
        }
      }
      if (cnt != 0) {
        std::snprintf(b, sizeof b, "Strand submission of %zu existing jobs allocated %ld blocks (must be 0)", jobs.size(), cnt);
        v.Fail(b);
      }
    } else {
      auto [f, p] = yaclib::MakeContract<int>();
      auto [g, pg] = yaclib::MakeContract<int>();
      auto [h, ph] = yaclib::MakeContract<int>();
      if (!pending) {
        std::move(p).Set(1);
        std::move(pg).Set(2);
        std::move(ph).Set(3);
      }
      g_inside_coro_news = -1;
      auto co = CoAwaitOne(std::move(f), g, h, form);
      if (pending) {
        std::move(p).Set(1);
        std::move(pg).Set(2);
        std::move(ph).Set(3);
      }
      (void)std::move(co).Get();
      if (g_inside_coro_news != 0) {
        std::snprintf(b, sizeof b, "co_await of plain futures allocated %ld blocks (must be 0)", g_inside_coro_news);
        v.Fail(b);
      }
    }
    v.nontrivial = n >= 16 || pending;
    v.hash = c.ProgHash();
    v.tags.push_back(kKindName[kind]);
    return v;
  }
};

}  // namespace

int main(int argc, char** argv) {
  AllocBounds fam;
  vf::Driver d{{&fam}};
  return d.Main(argc, argv);
}
