// C17: under the FIBER back end an execution is a pure function of (program, seed, fault configuration).
// The hook is installed in observe-only mode (choose = false): every decision stays with the library PRNG, the hook
// only records which fiber is resumed. Metamorphic oracle: trace of resumed fibers (ids normalised by first
// appearance), injected-yield delta, random-count delta and the program's own results are equal between
//   (0) two runs in one process after SetSeed + SetInjectorState(0),
//   (1) a run in this process and a run in a freshly exec'ed process,
//   (2) segment B inside A;B and B alone after SetSeed(s); ForwardToFaultRandomCount(c); SetInjectorState(i).
#include "common/driver.hpp"
#include "common/fibers.hpp"
#include "common/host.hpp"

#include <yaclib/async/contract.hpp>
#include <yaclib/async/wait.hpp>
#include <yaclib/async/wait_for.hpp>
#include <yaclib/coro/await.hpp>
#include <yaclib/coro/future.hpp>
#include <yaclib/coro/mutex.hpp>
#include <yaclib/coro/on.hpp>
#include <yaclib/exe/strand.hpp>
#include <yaclib/exe/submit.hpp>
#include <yaclib/fault/config.hpp>
#include <yaclib/fault/inject.hpp>
#include <yaclib/runtime/fair_thread_pool.hpp>
#include <yaclib_std/atomic>
#include <yaclib_std/condition_variable>
#include <yaclib_std/chrono>
#include <yaclib_std/mutex>
#include <yaclib_std/shared_mutex>
#include <yaclib_std/thread>

#include <cstdio>
#include <spawn.h>
#include <string>
#include <sys/wait.h>
#include <unistd.h>
#include <vector>

extern char** environ;

namespace {

using vf::Case;
using vf::Explorer;
using vf::Verdict;
using namespace std::chrono_literals;

struct Tracer final : yaclib::verif::Hook {
  Tracer() {
    choose = false;
  }
  bool on = false;
  std::vector<std::uint64_t> ids;
  std::uint64_t hash = 1469598103934665603ull;
  unsigned len = 0, switches = 0;
  int last = -1;
  bool Preempt() final {
    return false;
  }
  std::size_t Pick(std::size_t) final {
    return 0;
  }
  bool FailWeak() final {
    return false;
  }
  std::uint64_t Rand(std::uint64_t) final {
    return 0;
  }
  void OnResume(std::uint64_t id) final {
    if (!on) {
      return;
    }
    int idx = -1;
    for (std::size_t i = 0; i != ids.size(); ++i) {
      if (ids[i] == id) {
        idx = static_cast<int>(i);
      }
    }
    if (idx < 0) {
      idx = static_cast<int>(ids.size());
      ids.push_back(id);
    }
    hash = (hash ^ static_cast<std::uint64_t>(idx + 1)) * 1099511628211ull;
    ++len;
    if (idx != last) {
      ++switches;
      last = idx;
    }
  }
};

yaclib::Future<> WithMutex(yaclib::IExecutor& e, yaclib::Mutex<>& m, int& c, int rounds) {
  co_await On(e);
  for (int i = 0; i < rounds; ++i) {
    co_await m.Lock();
    ++c;
    co_await m.Unlock();
  }
  co_return{};
}

// one program step; returns a small result that goes into the event log
int Step(const int* r) {
  const int a = r[1], b = r[2];
  switch (r[0] % 6) {
    case 0: {  // pool + strand
      yaclib::FairThreadPool tp{static_cast<std::uint64_t>(1 + a % 3)};
      auto strand = yaclib::MakeStrand(&tp);
      int c = 0;
      for (int i = 0; i < 1 + b % 5; ++i) {
        yaclib::Submit(*strand, [&c] { ++c; });
      }
      tp.Stop();
      tp.Wait();
      return c;
    }
    case 1: {  // timed wait racing a sleeping producer
      auto [f, p] = yaclib::MakeContract<int>();
      yaclib_std::thread t([p = std::move(p), a]() mutable {
        yaclib_std::this_thread::sleep_for(std::chrono::nanoseconds(10 * (a % 40)));
        std::move(p).Set(1);
      });
      const bool timed = yaclib::WaitFor(std::chrono::nanoseconds(10 * (b % 40)), f);
      yaclib::Wait(f);
      t.join();
      return timed ? 1 : 0;
    }
    case 2: {  // coroutines contending on a coroutine mutex
      yaclib::FairThreadPool tp{static_cast<std::uint64_t>(1 + b % 3)};
      yaclib::Mutex<> m;
      int c = 0;
      std::vector<yaclib::Future<>> fs;
      for (int i = 0; i < 1 + a % 3; ++i) {
        fs.push_back(WithMutex(tp, m, c, 1 + b % 3));
      }
      yaclib::Wait(fs.begin(), fs.end());
      tp.Stop();
      tp.Wait();
      return c;
    }
    case 3: {  // lock / condvar soup
      yaclib_std::mutex m;
      yaclib_std::condition_variable cv;
      int turn = 0, order = 0;
      const int k = 2 + a % 3;
      std::vector<yaclib_std::thread> ts;
      for (int i = 0; i < k; ++i) {
        ts.emplace_back([&, i] {
          std::unique_lock l{m};
          cv.wait(l, [&] { return turn >= i % 2; });
          order = order * 5 + i + 1;
          ++turn;
          cv.notify_all();
        });
      }
      {
        std::lock_guard g{m};
        ++turn;
      }
      cv.notify_all();
      for (auto& t : ts) {
        t.join();
      }
      return order;
    }
    case 5: {  // timed locks: one fiber holds, the others give up after a (virtual) timeout or get in
      yaclib_std::timed_mutex tm;
      yaclib_std::shared_timed_mutex stm;
      yaclib_std::recursive_timed_mutex rtm;
      int got = 0;
      std::vector<yaclib_std::thread> ts;
      ts.emplace_back([&] {
        std::lock_guard l1{tm};
        std::lock_guard l2{stm};
        std::lock_guard l3{rtm};
        yaclib_std::this_thread::sleep_for(std::chrono::nanoseconds(20 * (a % 20)));
      });
      for (int i = 0; i < 1 + b % 3; ++i) {
        ts.emplace_back([&, i] {
          const auto d = std::chrono::nanoseconds(15 * ((a + b + i) % 25));
          if (i % 3 == 0) {
            if (tm.try_lock_for(d)) {
              got += 1;
              tm.unlock();
            }
          } else if (i % 3 == 1) {
            if (stm.try_lock_shared_for(d)) {
              got += 10;
              stm.unlock_shared();
            }
          } else if (rtm.try_lock_until(yaclib_std::chrono::steady_clock::now() + d)) {
            got += 100;
            rtm.unlock();
          }
        });
      }
      for (auto& t : ts) {
        t.join();
      }
      {
        // a timeout that really fires: the holder joins the waiter before it unlocks, so only the (virtual) deadline can
        // end the wait; how much virtual time passes until then is part of the step's elapsed time
        std::lock_guard hold{tm};
        std::lock_guard hold2{stm};
        yaclib_std::thread waiter{[&] {
          const auto d = std::chrono::nanoseconds(10 + 7 * (b % 30));
          got += (a % 2 == 0 ? tm.try_lock_for(d) : stm.try_lock_shared_for(d)) ? 1000 : 0;
        }};
        waiter.join();
      }
      return got;
    }
    default: {  // weak-CAS increments under contention (spurious failures come from the PRNG)
      yaclib_std::atomic<int> x{0};
      int retries = 0, once_ok = 0;
      const int k = 2 + a % 2;
      std::vector<yaclib_std::thread> ts;
      for (int i = 0; i < k; ++i) {
        ts.emplace_back([&] {
          for (int j = 0; j < 1 + b % 3; ++j) {
            int e = x.load(std::memory_order_relaxed);
            while (!x.compare_exchange_weak(e, e + 1, std::memory_order_acq_rel, std::memory_order_relaxed)) {
              ++retries;
            }
          }
          if ((a >> 1) % 2 == 1) {
            // try-once weak CAS (no retry): a spurious failure may be the last thing this fiber - or the whole traced
            // part - does with the injector, so state that outlives the failure shows up in the re-run / restore
            for (int j = 0; j < 1 + (b / 3) % 3; ++j) {
              int e = x.load(std::memory_order_relaxed);
              once_ok += x.compare_exchange_weak(e, e + 1, std::memory_order_acq_rel, std::memory_order_relaxed) ? 1 : 0;
            }
          }
        });
      }
      for (auto& t : ts) {
        t.join();
      }
      return x.load() * 100 + retries + once_ok * 7;
    }
  }
}

struct Outcome {
  std::uint64_t trace_hash = 0;
  unsigned trace_len = 0, switches = 0, fibers = 0;
  std::uint64_t rand_delta = 0, injected_delta = 0;
  std::uint64_t results = 0;
  std::uint64_t mid_rand = 0;  // draws since SetSeed at the segment boundary
  std::uint32_t mid_inj = 0;
  bool done = false;
  bool operator==(const Outcome& o) const {
    return trace_hash == o.trace_hash && trace_len == o.trace_len && rand_delta == o.rand_delta &&
           injected_delta == o.injected_delta && results == o.results;
  }
};

std::uint32_t CasFail(const Case& c) {
  const int v = c.H(3) % 20;
  return static_cast<std::uint32_t>(v == 0 ? 0 : v + 1);
}

void Configure(const Case& c) {
  yaclib::SetFaultFrequency(static_cast<std::uint32_t>(1 + c.H(1) % 32));
  yaclib::SetFaultSleepTime(static_cast<std::uint32_t>(1 + c.H(2) % 500));
  // 0 = never, k >= 2 = one in k; 1 would make every weak CAS fail (retry loops cannot terminate by configuration)
  yaclib::SetAtomicFailFrequency(CasFail(c));
  yaclib::fiber::SetFaultRandomListPick(static_cast<std::uint32_t>(1 + c.H(4) % 20));
  yaclib::fiber::SetFaultTickLength(static_cast<std::uint32_t>(1 + c.H(5) % 1000));
}

// Runs records [from, to) traced; if restore is set, first restores (c, i) instead of running [0, from).
Outcome RunProgram(const Case& c, std::size_t from, bool run_prefix, bool restore, std::uint64_t fwd, std::uint32_t inj) {
  Outcome o;
  Tracer tr;
  Configure(c);
  yaclib::fault::Scheduler scheduler;
  yaclib::fault::Scheduler::Set(&scheduler);
  yaclib::verif::SetHook(&tr);
  auto* main_fiber = new yaclib_std::thread([&] {
    // protocol: seeding is the first statement of the main fiber in every run that is compared
    yaclib::SetSeed(static_cast<std::uint32_t>(c.H(0)));
    yaclib::fiber::SetInjectorState(0);
    const auto base = yaclib::fiber::GetFaultRandomCount();
    if (restore) {
      yaclib::fiber::ForwardToFaultRandomCount(fwd);
      yaclib::fiber::SetInjectorState(inj);
    }
    if (run_prefix) {
      for (std::size_t i = 0; i < from; ++i) {
        (void)Step(c.Rec(i));
      }
    }
    o.mid_rand = yaclib::fiber::GetFaultRandomCount() - base;
    o.mid_inj = yaclib::fiber::GetInjectorState();
    const auto r0 = yaclib::fiber::GetFaultRandomCount();
    const auto i0 = yaclib::GetInjectedCount();
    tr.on = true;
    std::uint64_t res = 0;
    for (std::size_t i = from; i < c.Records(); ++i) {
      // the virtual clock is part of the execution: time that passes during a step must reproduce as well
      const auto t0 = yaclib_std::chrono::steady_clock::now();
      res = vf::Mix64(res, static_cast<std::uint64_t>(Step(c.Rec(i))));
      const auto dt = std::chrono::duration_cast<std::chrono::nanoseconds>(yaclib_std::chrono::steady_clock::now() - t0);
      res = vf::Mix64(res, static_cast<std::uint64_t>(dt.count()));
    }
    tr.on = false;
    o.results = res;
    o.rand_delta = yaclib::fiber::GetFaultRandomCount() - r0;
    o.injected_delta = yaclib::GetInjectedCount() - i0;
    o.done = true;
  });
  yaclib::verif::SetHook(nullptr);
  if (o.done) {
    main_fiber->join();
  } else {
    main_fiber->detach();
  }
  delete main_fiber;
  yaclib::fault::Scheduler::Set(nullptr);
  o.trace_hash = tr.hash;
  o.trace_len = tr.len;
  o.switches = tr.switches;
  o.fibers = static_cast<unsigned>(tr.ids.size());
  return o;
}

std::string Digest(const Outcome& o) {
  char b[200];
  std::snprintf(b, sizeof b, "DIGEST %016llx %u %llu %llu %016llx %d", static_cast<unsigned long long>(o.trace_hash),
                o.trace_len, static_cast<unsigned long long>(o.rand_delta),
                static_cast<unsigned long long>(o.injected_delta), static_cast<unsigned long long>(o.results),
                o.done ? 1 : 0);
  return b;
}

std::string gSelf;
std::string gTmpDir = "/tmp";

std::string ChildDigest(const Case& c) {
  char path[256];
  std::snprintf(path, sizeof path, "%s/vf-repro-%d.case", gTmpDir.c_str(), static_cast<int>(::getpid()));
  if (FILE* f = std::fopen(path, "w")) {
    const std::string s = c.Serialize();
    std::fwrite(s.data(), 1, s.size(), f);
    std::fclose(f);
  } else {
    return "spawn-error";
  }
  int fds[2];
  if (::pipe(fds) != 0) {
    return "spawn-error";
  }
  posix_spawn_file_actions_t fa;
  posix_spawn_file_actions_init(&fa);
  posix_spawn_file_actions_adddup2(&fa, fds[1], 1);
  posix_spawn_file_actions_addclose(&fa, fds[0]);
  std::string arg0 = gSelf, arg1 = "--digest", arg2 = path;
  char* argv[] = {arg0.data(), arg1.data(), arg2.data(), nullptr};
  pid_t pid = 0;
  const int rc = ::posix_spawn(&pid, gSelf.c_str(), &fa, nullptr, argv, environ);
  posix_spawn_file_actions_destroy(&fa);
  ::close(fds[1]);
  std::string out;
  if (rc == 0) {
    char buf[256];
    ssize_t n;
    while ((n = ::read(fds[0], buf, sizeof buf)) > 0) {
      out.append(buf, static_cast<std::size_t>(n));
    }
    int status = 0;
    ::waitpid(pid, &status, 0);
  }
  ::close(fds[0]);
  ::unlink(path);
  const auto pos = out.find("DIGEST ");
  if (pos == std::string::npos) {
    return "spawn-error";
  }
  auto end = out.find('\n', pos);
  return out.substr(pos, end == std::string::npos ? std::string::npos : end - pos);
}

class Repro final : public vf::Family {
 public:
  const char* Name() const final {
    return "repro";
  }
  const char* Property() const final {
    return "C17";
  }
  const char* Rule() const final {
    return "case = (seed, fault frequency 1..32, sleep time 1..500, CAS-fail frequency 0 or 2..20, pick width 1..20, tick "
           "1..1000, comparison mode, client program of 1..6 steps from {pool+strand, timed wait vs sleeping producer, "
           "coroutines on a coroutine mutex, lock/condvar soup, contended + try-once weak CAS, timed locks}); oracle (metamorphic) = "
           "trace of resumed fibers, random-count delta, injected-yield delta and program results equal between "
           "rerun-in-process / fresh process / restore of a recorded (random count, injector state) pair; "
           "non-trivial = traced part has >= 2 fibers, >= 1 injected yield and >= 20 fiber switches; distinct = "
           "(program, configuration, trace)";
  }
  rc::Gen<Case> Gen() const final {
    return rc::gen::exec([]() {
      Case c;
      c.recw = 3;
      // mode: 0 rerun, 1 fresh process (expensive: 1 in 8), 2 restore
      const int m = vf::Pick(0, 16);
      c.hdr = {vf::Pick(0, 1 << 30), vf::Pick(0, 32),  vf::Pick(0, 500), vf::Pick(0, 21),
               vf::Pick(0, 20),      vf::Pick(0, 1000), m < 7 ? 0 : (m < 9 ? 1 : 2)};
      const int n = vf::Pick(1, 7);
      for (int i = 0; i < n; ++i) {
        c.prog.push_back(vf::Pick(0, 6));
        c.prog.push_back(vf::Pick(0, 64));
        c.prog.push_back(vf::Pick(0, 64));
      }
      return c;
    });
  }
  std::string Describe(const Case& c) const final {
    static const char* const kStep[] = {"pool+strand", "timed-wait", "coro-mutex", "lock+condvar", "weak-cas", "timed-locks"};
    static const char* const kMode[] = {"rerun-in-process", "fresh-process", "restore(count,state)"};
    std::string s = std::string("mode=") + kMode[c.H(6) % 3] + " seed=" + std::to_string(c.H(0)) +
                    " freq=" + std::to_string(1 + c.H(1) % 32) + " sleep=" + std::to_string(1 + c.H(2) % 500) +
                    " casfail=" + std::to_string(CasFail(c)) + " pick=" + std::to_string(1 + c.H(4) % 20) +
                    " tick=" + std::to_string(1 + c.H(5) % 1000) + " steps=[";
    for (std::size_t i = 0; i < c.Records(); ++i) {
      const int* r = c.Rec(i);
      s += std::string(i != 0 ? " " : "") + kStep[r[0] % 6] + "(" + std::to_string(r[1]) + "," + std::to_string(r[2]) +
           ")";
    }
    return s + "]";
  }
  Verdict Run(const Case& c, Explorer&) final {
    Verdict v;
    vf::TheHost().Run([&] { RunOnHost(c, v); });
    return v;
  }
  void RunOnHost(const Case& c, Verdict& v) {
    const int mode = c.H(6) % 3;
    Outcome first;
    if (mode == 2 && c.Records() >= 2) {
      const std::size_t mid = c.Records() / 2;
      first = RunProgram(c, mid, true, false, 0, 0);
      if (first.done) {
        Outcome only = RunProgram(c, mid, false, true, first.mid_rand, first.mid_inj);
        if (!only.done) {
          v.Fail("restored continuation deadlocked although the original run finished");
        } else if (!(first == only)) {
          v.Fail("continuation after ForwardToFaultRandomCount/SetInjectorState differs from the original run: " +
                 Digest(first) + " vs " + Digest(only));
        }
      }
    } else if (mode == 1) {
      first = RunProgram(c, 0, true, false, 0, 0);
      const std::string child = ChildDigest(c);
      if (child == "spawn-error") {
        v.inconclusive = true;
      } else if (child != Digest(first)) {
        v.Fail("fresh process produced a different execution: " + Digest(first) + " vs " + child);
      }
    } else {
      first = RunProgram(c, 0, true, false, 0, 0);
      Outcome again = RunProgram(c, 0, true, false, 0, 0);
      if (first.done != again.done || (first.done && !(first == again))) {
        v.Fail("re-run in the same process after SetSeed/SetInjectorState(0) differs: " + Digest(first) + " vs " +
               Digest(again));
      }
    }
    if (!first.done && v.ok) {
      v.Fail("program deadlocked under the library's own schedule (all steps terminate under the std contract)");
    }
    v.nontrivial = first.fibers >= 2 && first.injected_delta >= 1 && first.switches >= 20;
    v.hash = vf::Mix64(c.ProgHash(), first.trace_hash);
    static const char* const kMode[] = {"rerun-in-process", "fresh-process", "restore"};
    v.tags.push_back(kMode[mode]);
    {
      static const char* const kStepTag[] = {"step:pool+strand", "step:timed-wait", "step:coro-mutex", "step:lock+condvar",
                                             "step:weak-cas", "step:timed-locks"};
      bool seen[6] = {};
      for (std::size_t i = 0; i < c.Records(); ++i) {
        seen[c.Rec(i)[0] % 6] = true;
      }
      for (int k = 0; k < 6; ++k) {
        if (seen[k]) {
          v.tags.push_back(kStepTag[k]);
        }
      }
    }
    char b[128];
    std::snprintf(b, sizeof b, "trace_len=%u switches=%u fibers=%u injected=%llu draws=%llu", first.trace_len,
                  first.switches, first.fibers, static_cast<unsigned long long>(first.injected_delta),
                  static_cast<unsigned long long>(first.rand_delta));
    v.detail = b;
  }
};

}  // namespace

int main(int argc, char** argv) {
  char self[4096];
  const ssize_t n = ::readlink("/proc/self/exe", self, sizeof self - 1);
  gSelf = n > 0 ? std::string(self, static_cast<std::size_t>(n)) : argv[0];
  for (int i = 1; i + 1 < argc; ++i) {
    if (std::string(argv[i]) == "--out") {
      gTmpDir = argv[i + 1];
    }
  }
  if (argc == 3 && std::string(argv[1]) == "--digest") {
    Case c;
    if (!Case::Load(argv[2], c)) {
      return 2;
    }
    Outcome o;
    vf::TheHost().Run([&] { o = RunProgram(c, 0, true, false, 0, 0); });
    std::printf("%s\n", Digest(o).c_str());
    return 0;
  }
  Repro fam;
  vf::Driver d{{&fam}};
  return d.Main(argc, argv);
}
