// C06: every observer of a SharedFuture sees the one value exactly once, never before it exists.
#define VF_LEDGER_IMPL
#include "common/driver.hpp"
#include "common/fibers.hpp"
#include "common/host.hpp"
#include "common/ledger.hpp"
#include "common/testexec.hpp"
#include "common/tracked.hpp"

#include <yaclib/async/connect.hpp>
#include <yaclib/async/contract.hpp>
#include <yaclib/async/make.hpp>
#include <yaclib/async/share.hpp>
#include <yaclib/async/shared_contract.hpp>
#include <yaclib/async/split.hpp>
#include <yaclib/async/wait.hpp>
#include <yaclib/coro/await.hpp>
#include <yaclib/coro/future.hpp>

#include <cstdio>
#include <exception>
#include <string>
#include <vector>

namespace {

using vf::Case;
using vf::Explorer;
using vf::Pay;
using vf::Verdict;

struct TErr {
  int code;
  TErr(yaclib::StopTag) noexcept : code{-1} {
  }
  explicit TErr(int c) noexcept : code{c} {
  }
  static const char* What() noexcept {
    return "TErr";
  }
};
struct TExc {
  int id;
};
using R = yaclib::Result<Pay, TErr>;
using SF = yaclib::SharedFuture<Pay, TErr>;

enum Prod { kSetValue, kSetError, kSetException, kDropPromise, kProdN };
const char* const kProdName[] = {"Set(value)", "Set(error)", "Set(exception)", "drop-promise"};
enum ObsOp {
  kReady,
  kSubscribeInline,
  kSubscribeExec,
  kThenInline,
  kThenExec,
  kGetConst,
  kCopy,
  kDropCopy,
  kShare,
  kShareOn,
  kConnectPromise,
  kConnectShared,
  kCoAwait,
  kCoAwaitAwait,
  kWait,
  kUnwrap,  // a continuation of another pipeline returns this SharedFuture (flattening must copy while others hold it)
  kThenAsync,       // ThenInline with a value callback that returns a Future (skipped when the shared result is a failure)
  kThenAsyncThrow,  // ThenInline with a Result callback returning a Future that throws instead
  kThenReturnsShared,  // ThenInline on the SharedFuture (the node sits in its callback list, linked to other subscribers)
                       // whose callback returns a second, still pending SharedFuture: the node becomes that one's first subscriber
  kObsN
};
const char* const kObsName[] = {"Ready", "SubscribeInline", "Subscribe(e)", "ThenInline", "Then(e)", "Get const&", "copy",
                                "drop-copy", "Share", "Share(e)", "Connect->Promise", "Connect->SharedPromise",
                                "co_await sf", "co_await Await(sf)", "Wait", "returned from a continuation (unwrapping)",
                                "ThenInline(value)->Future", "ThenInline(Result)->Future, throws",
                                "ThenInline(Result)->second pending SharedFuture"};

struct Ctx {
  int pk = 0;
  bool set_begun = false;
  int expected = 0, fired = 0;
  const char* err = nullptr;
  int raced = 0;  // observer operations executed while another observer's callback was registered and value not set
  int registered_now = 0;
  SF sf2;  // a second shared state, fulfilled (value 43) by the fulfiller after the first one
  void Err(const char* e) {
    if (err == nullptr) {
      err = e;
    }
  }
};

// an argument for SharedPromise::Set whose conversion to the value type throws
struct ThrowerPay {
  operator Pay() const {  // NOLINT
    throw TExc{1};
  }
};

void Check(Ctx& cx, const R& r) {
  if (!cx.set_begun) {
    cx.Err("observer saw a result before the SharedPromise began to be fulfilled");
  }
  switch (cx.pk) {
    case kSetValue:
      if (r.State() != yaclib::ResultState::Value) {
        cx.Err("expected a value");
      } else if (r.Value().Read() != 42) {
        cx.Err("observer read a value different from the one set");
      }
      break;
    case kSetError:
      if (r.State() != yaclib::ResultState::Error || r.Error().code != 5) {
        cx.Err("expected the error that was set");
      }
      break;
    case kSetException:
      if (r.State() != yaclib::ResultState::Exception) {
        cx.Err("expected the exception that was set");
      } else {
        try {
          std::rethrow_exception(r.Exception());
        } catch (const TExc& e) {
          if (e.id != 9) {
            cx.Err("exception differs from the one set");
          }
        } catch (...) {
          cx.Err("foreign exception");
        }
      }
      break;
    default:
      if (r.State() != yaclib::ResultState::Error || r.Error().code != -1) {
        cx.Err("dropped SharedPromise must deliver StopError");
      }
  }
}

yaclib::Future<int, TErr> CoObserve(SF sf, Ctx* cx, bool use_await) {
  ++cx->expected;
  try {
    if (use_await) {
      co_await Await(sf);
      ++cx->fired;
      if (!sf.Ready()) {
        cx->Err("Await(sf) resumed but Ready() is false");
      } else {
        Check(*cx, sf.Touch());
      }
    } else {
      Pay v = co_await sf;
      ++cx->fired;
      if (!cx->set_begun) {
        cx->Err("co_await resumed before the SharedPromise began to be fulfilled");
      }
      if (cx->pk != kSetValue) {
        cx->Err("co_await returned a value although a failure was set");
      } else if (v.Read() != 42) {
        cx->Err("co_await returned a wrong value");
      }
    }
  } catch (const TExc& e) {
    ++cx->fired;
    if (cx->pk != kSetException || e.id != 9 || !cx->set_begun) {
      cx->Err("co_await rethrew an unexpected exception");
    }
  } catch (const yaclib::ResultError<TErr>& e) {
    ++cx->fired;
    const int want = cx->pk == kSetError ? 5 : -1;
    if ((cx->pk != kSetError && cx->pk != kDropPromise) || e.Get().code != want || !cx->set_begun) {
      cx->Err("co_await rethrew an unexpected error");
    }
  } catch (const yaclib::ResultEmpty&) {
    ++cx->fired;
    cx->Err("co_await resumed on an empty Result (before the value exists)");
  }
  co_return 1;
}

// the only remaining handle is read twice through co_await: whoever reads first must not take the value (or the
// exception) away, a later reader of the same handle still finds it
yaclib::Future<int, TErr> CoReadTwice(const SF& sf, Ctx* cx) {
  for (int i = 0; i < 2; ++i) {
    try {
      Pay v = co_await sf;
      if (cx->pk != kSetValue) {
        cx->Err("co_await on the last handle returned a value although a failure was set");
      } else if (v.Read() != 42) {
        cx->Err("co_await on the last handle returned a wrong value");
      }
    } catch (const TExc& e) {
      if (cx->pk != kSetException || e.id != 9) {
        cx->Err("co_await on the last handle rethrew an unexpected exception");
      }
    } catch (const yaclib::ResultError<TErr>& e) {
      const int want = cx->pk == kSetError ? 5 : -1;
      if ((cx->pk != kSetError && cx->pk != kDropPromise) || e.Get().code != want) {
        cx->Err("co_await on the last handle rethrew an unexpected error");
      }
    } catch (...) {
      cx->Err("co_await on the last handle threw something else (a moved-out exception_ptr?)");
    }
  }
  co_return 1;
}

struct Op {
  int op, par;
};

void Observer(Ctx& cx, SF sf, const SF& common, const std::vector<Op>& ops, yaclib::IExecutor& e) {
  std::vector<SF> copies;
  std::vector<yaclib::Future<int, TErr>> outs;
  std::vector<yaclib::FutureOn<int, TErr>> outs_on;
  std::vector<yaclib::Future<int, TErr>> outs_any;  // results not constrained (value, passed-through failure or thrown)
  std::vector<yaclib::Future<Pay, TErr>> pays;
  std::vector<yaclib::FutureOn<Pay, TErr>> pays_on;
  std::vector<yaclib::Future<Pay, TErr>> pays2;  // flattened from the second SharedFuture: value 43
  std::vector<SF> seconds;
  vf::Guard guard;
  for (auto op : ops) {
    vf::Point();
    const SF& use = (op.par & 1) != 0 ? common : sf;
    if (cx.registered_now > 0 && !cx.set_begun) {
      ++cx.raced;
    }
    auto cb_void = [&cx, guard](const R& r) {
      guard.Use();
      ++cx.fired;
      --cx.registered_now;
      Check(cx, r);
    };
    auto cb_int = [&cx, guard](const R& r) {
      guard.Use();
      ++cx.fired;
      --cx.registered_now;
      Check(cx, r);
      return 1;
    };
    // the same callbacks taking the shared Result by value: the library must hand a shared result over as a const
    // reference (a copy is made), never as an rvalue (the payload would be moved out under the other observers)
    auto cb_void_val = [&cx, guard](R r) {
      guard.Use();
      ++cx.fired;
      --cx.registered_now;
      Check(cx, r);
    };
    auto cb_int_val = [&cx, guard](R r) {
      guard.Use();
      ++cx.fired;
      --cx.registered_now;
      Check(cx, r);
      return 1;
    };
    const bool by_value = (op.par >> 2) % 2 == 1;  // par is drawn from 0..7
    switch (op.op % kObsN) {
      case kReady:
        if (use.Ready()) {
          if (!cx.set_begun) {
            cx.Err("Ready() true before the SharedPromise began to be fulfilled");
          }
          Check(cx, use.Touch());
        }
        break;
      case kSubscribeInline:
        ++cx.expected;
        ++cx.registered_now;
        if (by_value) {
          use.SubscribeInline(cb_void_val);
        } else {
          use.SubscribeInline(cb_void);
        }
        break;
      case kSubscribeExec:
        ++cx.expected;
        ++cx.registered_now;
        if (by_value) {
          use.Subscribe(e, cb_void_val);
        } else {
          use.Subscribe(e, cb_void);
        }
        break;
      case kThenInline:
        ++cx.expected;
        ++cx.registered_now;
        outs.push_back(by_value ? use.ThenInline(cb_int_val) : use.ThenInline(cb_int));
        break;
      case kThenExec:
        ++cx.expected;
        ++cx.registered_now;
        outs_on.push_back(by_value ? use.Then(e, cb_int_val) : use.Then(e, cb_int));
        break;
      case kGetConst:
        Check(cx, use.Get());
        break;
      case kCopy:
        copies.push_back(use);
        break;
      case kDropCopy:
        if (!copies.empty()) {
          copies.pop_back();
        }
        break;
      case kShare:
        pays.push_back(yaclib::Share(use));
        break;
      case kShareOn:
        pays_on.push_back(yaclib::Share(use, e));
        break;
      case kConnectPromise: {
        auto [f, p] = yaclib::MakeContract<Pay, TErr>();
        yaclib::Connect(use, std::move(p));
        ++cx.expected;
        ++cx.registered_now;
        outs.push_back(std::move(f).ThenInline([&cx, guard](R&& r) {
          guard.Use();
          ++cx.fired;
          --cx.registered_now;
          Check(cx, r);
          return 1;
        }));
        break;
      }
      case kConnectShared: {
        auto [f2, p2] = yaclib::MakeSharedContract<Pay, TErr>();
        yaclib::Connect(use, std::move(p2));
        seconds.push_back(std::move(f2));
        break;
      }
      case kCoAwait:
        ++cx.registered_now;
        outs.push_back(CoObserve(use, &cx, false).ThenInline([&cx](yaclib::Result<int, TErr>&& r) {
          --cx.registered_now;
          return std::move(r).Ok();
        }));
        break;
      case kCoAwaitAwait:
        ++cx.registered_now;
        outs.push_back(CoObserve(use, &cx, true).ThenInline([&cx](yaclib::Result<int, TErr>&& r) {
          --cx.registered_now;
          return std::move(r).Ok();
        }));
        break;
      case kThenAsync:
        if (cx.pk == kSetValue) {
          ++cx.expected;
          ++cx.registered_now;
        }
        outs_any.push_back(use.ThenInline([&cx, guard](const Pay& v) {
          guard.Use();
          ++cx.fired;
          --cx.registered_now;
          if (!cx.set_begun || v.Read() != 42) {
            cx.Err("async value continuation of a SharedFuture saw a wrong value / ran early");
          }
          return yaclib::MakeFuture<int, TErr>(1);
        }));
        break;
      case kThenAsyncThrow:
        ++cx.expected;
        ++cx.registered_now;
        outs_any.push_back(use.ThenInline([&cx, guard](const R& r) -> yaclib::Future<int, TErr> {
          guard.Use();
          ++cx.fired;
          --cx.registered_now;
          Check(cx, r);
          throw TExc{3};
        }));
        break;
      case kUnwrap:
        pays.push_back(yaclib::MakeFuture<void, TErr>().ThenInline([copy = use]() { return copy; }));
        break;
      case kThenReturnsShared:
        ++cx.expected;
        ++cx.registered_now;
        pays2.push_back(use.ThenInline([&cx, guard, second = cx.sf2](const R& r) {
          guard.Use();
          ++cx.fired;
          --cx.registered_now;
          Check(cx, r);
          return second;
        }));
        break;
      default:
        yaclib::Wait(use);
        if (!use.Ready()) {
          cx.Err("Wait(sf) returned but Ready() is false");
        } else {
          Check(cx, use.Touch());
        }
    }
  }
  // drain everything this observer created
  for (auto& o : outs) {
    auto r = std::move(o).Get();
    if (!r || std::move(r).Ok() != 1) {
      cx.Err("future derived from the SharedFuture lost its continuation's return value");
    }
  }
  for (auto& o : outs_on) {
    auto r = std::move(o).Get();
    if (!r || std::move(r).Ok() != 1) {
      cx.Err("FutureOn derived from the SharedFuture lost its continuation's return value");
    }
  }
  for (auto& o : outs_any) {
    (void)std::move(o).Get();
  }
  for (auto& p : pays) {
    R r = std::move(p).Get();
    Check(cx, r);
  }
  for (auto& p : pays_on) {
    R r = std::move(p).Get();
    Check(cx, r);
  }
  for (auto& p : pays2) {
    R r = std::move(p).Get();
    if (!r || std::as_const(r).Value().Read() != 43) {
      cx.Err("a continuation that returned the second SharedFuture did not complete with that one's value");
    }
  }
  for (auto& s : seconds) {
    Check(cx, s.Get());
  }
  if (!ops.empty() && ops.back().par % 4 == 2) {
    R r = std::move(sf).Get();  // may move out only if this is provably the last owner
    Check(cx, r);
  }
}

class Shared final : public vf::Family {
 public:
  const char* Name() const final {
    return "shared";
  }
  const char* Property() const final {
    return "C06";
  }
  const char* Rule() const final {
    return "case = fulfiller (value/error/exception/drop, optional Split/Share/Connect through the SharedPromise "
           "before Set) + 2..4 observer fibers, each with its own copy and a shared const reference, running a "
           "generated sequence of {Ready, SubscribeInline, Subscribe(e), ThenInline, Then(e), Get const&, copy, drop "
           "copy, Share, Share(e), Connect to Promise / SharedPromise, co_await sf, co_await Await(sf), Wait, returned from a "
           "continuation (unwrapping), ThenInline returning a Future (value callback / throwing), final Get&&} x executor kind x schedule tape; oracle = every registered callback/awaiter fires exactly once and "
           "only after Set began, every value seen equals the set one and is alive (Tracked payload with checksum: "
           "moved-from / destroyed / torn reads flagged), Ready() => Touch() readable, Tracked and heap balance, no "
           "parked fiber; non-trivial = >= 2 observers and an observer operation executed while another callback was "
           "registered and the value not yet set; distinct = (program, effective fiber trace)";
  }
  rc::Gen<Case> Gen() const final {
    return rc::gen::exec([]() {
      Case c;
      c.recw = 3;
      const int k = vf::Pick(2, 5);
      c.hdr = {vf::Pick(0, 8), k, vf::Pick(0, 2) + (vf::Pick(0, 8) == 0 ? 2 : 0), vf::Pick(0, 8)};
      const int n = vf::Pick(1, 13);
      for (int i = 0; i < n; ++i) {
        c.prog.push_back(vf::Pick(0, k));
        c.prog.push_back(vf::Pick(0, kObsN));
        c.prog.push_back(vf::Pick(0, 8));
      }
      c.tape = *vf::GenTape(400);
      return c;
    });
  }
  std::vector<Case> DfsPrograms(int tier) const final {
    std::vector<Case> out;
    // two observers with one registering operation each, all pairs of a few kinds
    const int kinds[] = {kSubscribeInline, kThenInline, kShare, kConnectPromise, kCoAwait, kGetConst, kReady};
    const int n = tier == 0 ? 4 : 7;
    for (int a = 0; a < n; ++a) {
      for (int b = a; b < n; ++b) {
        for (int pk = 0; pk < (tier == 0 ? 1 : 2); ++pk) {
          Case c;
          c.recw = 3;
          c.hdr = {pk * 3, 2, 0, 0};
          c.prog = {0, kinds[a], 0, 1, kinds[b], 2};
          out.push_back(c);
        }
      }
    }
    return out;
  }
  std::string Describe(const Case& c) const final {
    const int k = 2 + (c.H(1) + 2) % 3;
    std::string s = std::string("producer=") + kProdName[ProdKind(c)] + " pre_set_ops=" + std::to_string(c.H(3) % 8) +
                    " observers=" + std::to_string(k) + " exec=" + (c.H(2) % 2 == 0 ? "inline-tagged" : "queue-fiber") + (c.H(2) / 2 % 2 == 1 ? " first-Set-throws" : "") +
                    " ops=[";
    for (std::size_t i = 0; i < c.Records(); ++i) {
      const int* r = c.Rec(i);
      s += std::string(i != 0 ? " " : "") + "o" + std::to_string(r[0] % k) + ":" + kObsName[r[1] % kObsN] +
           ((r[2] & 1) != 0 ? "@common" : "");
    }
    return s + "] tape_len=" + std::to_string(c.tape.size());
  }
  static int ProdKind(const Case& c) {
    const int v = c.H(0) % 8;
    return v < 5 ? kSetValue : v - 4;  // value most of the time
  }
  Verdict Run(const Case& c, Explorer& ex) final {
    Verdict v;
    vf::TheHost().Run([&] { RunOnHost(c, ex, v); });
    return v;
  }

 private:
  void RunOnHost(const Case& c, Explorer& ex, Verdict& v) {
    if (!_warm) {
      _warm = true;
      Explorer w;
      vf::RunFibers(w, [] {
        std::vector<yaclib_std::thread> ts;
        ts.reserve(10);
        for (int i = 0; i < 10; ++i) {
          ts.emplace_back([] { vf::Point(); });
        }
        for (auto& t : ts) {
          t.join();
        }
      });
    }
    Ctx cx;
    cx.pk = ProdKind(c);
    const int k = 2 + (c.H(1) + 2) % 3;
    const int ek = c.H(2) % 2;
    const int pre = c.H(3) % 8;
    const bool throws_first = c.H(2) / 2 % 2 == 1;
    std::vector<std::vector<Op>> prog(static_cast<std::size_t>(k));
    for (std::size_t i = 0; i < c.Records(); ++i) {
      const int* r = c.Rec(i);
      prog[static_cast<std::size_t>(r[0]) % prog.size()].push_back({r[1], r[2]});
    }
    vf::TS().Reset();
    long live_delta = 0;
    const bool done = vf::RunFibers(ex, [&] {
      const long live0 = vf::L().Live();
      {
        vf::TagInlineExec inl{1};
        vf::QueueExec que{2};
        yaclib::IExecutor& e = ek == 0 ? static_cast<yaclib::IExecutor&>(inl) : static_cast<yaclib::IExecutor&>(que);
        yaclib_std::thread server;
        if (ek == 1) {
          server = yaclib_std::thread([&] { que.Serve(); });
        }
        auto [sf0, sp] = yaclib::MakeSharedContract<Pay, TErr>();
        auto [sf2, sp2] = yaclib::MakeSharedContract<Pay, TErr>();
        cx.sf2 = std::move(sf2);
        std::vector<yaclib_std::thread> ts;
        ts.reserve(static_cast<std::size_t>(k) + 1);
        for (auto& ops : prog) {
          ts.emplace_back([&cx, sf = sf0, &sf0 = sf0, &ops = ops, &e]() mutable { Observer(cx, std::move(sf), sf0, ops, e); });
        }
        ts.emplace_back([&cx, sp = std::move(sp), sp2 = std::move(sp2), pre, throws_first]() mutable {
          vf::Point();
          SF split;
          yaclib::Future<Pay, TErr> shared_f;
          yaclib::Future<Pay, TErr> connected_f;
          if ((pre & 1) != 0) {
            split = yaclib::Split(sp);
          }
          if ((pre & 2) != 0) {
            shared_f = yaclib::Share(sp);
          }
          if ((pre & 4) != 0) {
            auto [f, p] = yaclib::MakeContract<Pay, TErr>();
            yaclib::Connect(sp, std::move(p));
            connected_f = std::move(f);
          }
          vf::Point();
          cx.set_begun = true;
          if (throws_first) {
            // a Set whose value construction throws must leave the SharedPromise valid (it is then fulfilled or dropped)
            bool thrown = false;
            try {
              std::move(sp).Set(ThrowerPay{});
            } catch (const TExc&) {
              thrown = true;
            }
            if (!thrown) {
              cx.Err("Set with a throwing value constructor did not propagate the exception");
            } else if (!sp.Valid()) {
              cx.Err("a Set that threw left the SharedPromise invalid: observers can never be released");
              return;
            }
            vf::Point();
          }
          switch (cx.pk) {
            case kSetValue:
              std::move(sp).Set(Pay{42});
              break;
            case kSetError:
              std::move(sp).Set(TErr{5});
              break;
            case kSetException:
              std::move(sp).Set(std::make_exception_ptr(TExc{9}));
              break;
            default: {
              auto dropped = std::move(sp);
            }
          }
          vf::Point();
          std::move(sp2).Set(Pay{43});  // the second shared state (returned by some continuations) is fulfilled later
          if (split.Valid()) {
            Check(cx, split.Get());
          }
          if (shared_f.Valid()) {
            Check(cx, std::move(shared_f).Get());
          }
          if (connected_f.Valid()) {
            Check(cx, std::move(connected_f).Get());
          }
        });
        for (auto& t : ts) {
          t.join();
        }
        cx.sf2 = SF{};  // the second shared state dies with its last holder before the balance is taken
        // last-but-one holder: only sf0 is left; a continuation that returns it (flattening) must copy, because sf0
        // is read again afterwards (moving out is allowed only for the provably last owner)
        if ((pre & 1) == 0) {
          auto flat = yaclib::MakeFuture<void, TErr>().ThenInline([copy = sf0]() { return copy; });
          R r = std::move(flat).Get();
          Check(cx, r);
          Check(cx, sf0.Get());
        }
        if ((pre & 2) == 0) {
          (void)CoReadTwice(sf0, &cx).Get();
          Check(cx, sf0.Get());
        }
        sf0 = {};
        if (ek == 1) {
          que.Stop();
          server.join();
        }
      }
      live_delta = vf::L().Live() - live0;
    });
    v.inconclusive = ex.over_budget;
    if (!done) {
      v.Fail("deadlock: an observer (Get / Wait / derived future / coroutine) never saw the value");
    } else if (cx.err != nullptr) {
      v.Fail(cx.err);
    } else if (vf::TS().err != nullptr) {
      v.Fail(vf::TS().err);
    } else if (cx.fired != cx.expected) {
      v.Fail(cx.fired < cx.expected ? "a registered callback / awaiter never fired"
                                    : "a registered callback / awaiter fired more than once");
    } else if (vf::TS().Live() != 0) {
      v.Fail("payload / functor objects constructed != destroyed at quiescence");
    } else if (live_delta != 0) {
      v.Fail("heap blocks allocated for the shared state or its observers remain at quiescence");
    }
    v.nontrivial = k >= 2 && cx.raced > 0;
    v.hash = vf::Mix64(c.ProgHash(), ex.trace_hash);
    v.tags.push_back(kProdName[cx.pk]);
    if (cx.raced > 0) {
      v.tags.push_back("op-while-other-callback-registered");
    }
    {
      unsigned ops_seen = 0;
      for (std::size_t i = 0; i < c.Records(); ++i) {
        ops_seen |= 1u << (c.Rec(i)[1] % kObsN);
      }
      for (int o = 0; o < kObsN; ++o) {
        if ((ops_seen >> o) & 1u) {
          v.tags.push_back(vf::Intern(std::string("op:") + kObsName[o]));
        }
      }
      if (c.H(2) / 2 % 2 == 1) {
        v.tags.push_back("first-Set-throws");
      }
      if (c.H(3) % 8 != 0) {
        v.tags.push_back("Split/Share/Connect-through-the-SharedPromise");
      }
    }
    char b[96];
    std::snprintf(b, sizeof b, "callbacks=%d switches=%u", cx.expected, ex.switches);
    v.detail = b;
  }
  bool _warm = false;
};

}  // namespace

int main(int argc, char** argv) {
  Shared fam;
  vf::Driver d{{&fam}};
  return d.Main(argc, argv);
}
