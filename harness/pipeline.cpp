// Typed pipeline interpreter over a closed universe {int, void} x {Future, FutureOn, Task} with one custom error type,
// compared with a reference model. One engine, five oracles:
//   C02 final Result + ordered list of invoked callbacks          C05 executor of every Call-type step, Submit counts,
//   C12 nothing before start, eager twin, abandonment                  rejection => StopError
//   C20 operator new calls <= model constructs                    C03 functor/payload and heap balance at quiescence
// Single OS thread, FAULT=OFF build: everything is deterministic.
#define VF_LEDGER_IMPL
#include "common/driver.hpp"
#include "common/ledger.hpp"
#include "common/tracked.hpp"

#include <yaclib/async/contract.hpp>
#include <yaclib/async/make.hpp>
#include <yaclib/async/run.hpp>
#include <yaclib/async/shared_contract.hpp>
#include <yaclib/async/split.hpp>
#include <yaclib/coro/await.hpp>
#include <yaclib/coro/future.hpp>
#include <yaclib/coro/task.hpp>
#include <yaclib/exe/executor.hpp>
#include <yaclib/exe/inline.hpp>
#include <yaclib/lazy/make.hpp>
#include <yaclib/lazy/schedule.hpp>
#include <yaclib/util/detail/intrusive_list.hpp>

#include <cstdio>
#include <string>
#include <vector>

namespace {

using vf::Case;
using vf::Explorer;
using vf::Verdict;

struct TErr {
  int code;
  TErr(yaclib::StopTag) noexcept : code{-1} {
  }
  explicit TErr(int c) noexcept : code{c} {
  }
  static const char* What() noexcept {
    return "TErr";
  }
};
template <typename V>
using R = yaclib::Result<V, TErr>;
struct Boom {
  int id;
};

int g_ctx = 0;  // tag of the executor currently running a job (0 = none)

struct TagExec final : yaclib::IExecutor {
  int tag = 0, submits = 0, reject_from = 1 << 30;
  bool immediate = false;
  yaclib::detail::List q;
  Type Tag() const noexcept final {
    return Type::Custom;
  }
  bool Alive() const noexcept final {
    return submits < reject_from;
  }
  void Submit(yaclib::Job& j) noexcept final {
    if (submits++ >= reject_from) {
      j.Drop();
      return;
    }
    if (immediate) {
      const int prev = g_ctx;
      g_ctx = tag;
      j.Call();
      g_ctx = prev;
      return;
    }
    q.PushBack(j);
  }
  bool Drain() {
    bool any = false;
    while (!q.Empty()) {
      any = true;
      auto& j = q.PopFront();
      const int prev = g_ctx;
      g_ctx = tag;
      static_cast<yaclib::Job&>(j).Call();
      g_ctx = prev;
    }
    return any;
  }
};

struct Step {
  int mode, sig, w, ret, par;
};
struct Ev {
  int id, ctx;
};

enum Source { kReadyValue, kReadyError, kReadyException, kRun, kLateValue, kLateError, kLateException, kRunStopped, kMakeTask, kSchedule, kScheduleStopped, kLazyContract, kSourceN };
const char* const kSourceName[] = {"MakeFuture(value)", "MakeFuture(error)", "MakeFuture(exception)", "Run(e)",
                                   "contract set after building (value)", "contract set after (error)",
                                   "contract set after (exception)", "Run(stopped Inline)", "MakeTask(value)", "Schedule(e)",
                                   "Schedule(stopped Inline)", "LazyContract"};
enum Start { kToFuture, kToFutureOn, kGet, kDetach, kDetachOn, kInnerTask, kCoAwait, kAwait, kStartN };
const char* const kStartName[] = {"ToFuture()", "ToFuture(e)", "Get()", "Detach()+sink", "Detach(e)+sink",
                                  "returned from a continuation", "co_await", "Await(task)"};
const char* const kModeName[] = {"ThenInline", "Then(e)", "Then()"};
const char* const kSigName[] = {"value", "Result", "error", "exception_ptr"};
const char* const kRetName[] = {"plain", "Result", "throws|plain", "Future", "SharedFuture(Split)", "Task(MakeTask|Schedule(e))",
                                 "Task(coroutine)", "Future(coroutine)"};
constexpr int kRetN = 8;

// A copyable capture that owns a heap block. The blocks are made before the measured window and *moved* into the step
// functors, which are handed to the library as rvalues: a library that forwards them allocates nothing for the
// capture, one that copies a functor pays a second block for the step ("regardless of callback").
struct HeapCap {
  int* p = nullptr;
  HeapCap() = default;
  explicit HeapCap(int v) : p{new int{v}} {
  }
  HeapCap(const HeapCap& o) : p{o.p != nullptr ? new int{*o.p} : nullptr} {
  }
  HeapCap(HeapCap&& o) noexcept : p{std::exchange(o.p, nullptr)} {
  }
  HeapCap& operator=(HeapCap o) noexcept {
    std::swap(p, o.p);
    return *this;
  }
  ~HeapCap() {
    delete p;
  }
};

struct Ctx {
  std::vector<HeapCap> caps;
  HeapCap TakeCap() {
    if (caps.empty()) {
      return HeapCap{};
    }
    HeapCap c = std::move(caps.back());
    caps.pop_back();
    return c;
  }
  std::vector<Step> prog;
  std::size_t pc = 0;
  TagExec ex[2];
  std::vector<Ev> log;
  int fstate = -1, fval = 0, fcode = 0;
  yaclib::Promise<int, TErr> late;
  int late_kind = -1;
  bool abandon = false, abandoned = false, abandon_by_assignment = false;
  bool ran_before_start = false;
  int start = kToFuture, start_exec = 0;
  bool sink_called = false;
  int guards_used = 0;
  bool head_ran = false;  // body of a coroutine-Task head executed
};

// ------------------------------------------------------------------------------------------------ reference model
struct MRes {
  int st, val, code;  // st: 0 value 1 exception 2 error; val for values (0 when void); code: error code / exception id
};
struct Model {
  std::vector<Ev> log;
  int submits[2] = {0, 0};
  int reject_from[2] = {1 << 30, 1 << 30};
  int constructs = 0;
  bool Submit(int e) {
    return submits[e]++ < reject_from[e];
  }
};
int InputOf(int sig, const MRes& in) {
  switch (sig) {
    case 0:
      return in.val;
    case 1:
      return in.st;
    default:
      return in.code;
  }
}
MRes ModelProduce(Model& m, const Step& s, int in, bool wvoid, int* ctx) {
  const int out = in + 1;
  const int ov = wvoid ? 0 : out;
  switch (s.ret % kRetN) {
    case 0:
      return {0, ov, 0};
    case 1:
      return s.par % 3 == 0 ? MRes{0, ov, 0} : s.par % 3 == 1 ? MRes{2, 0, out} : MRes{1, 0, out};
    case 2:
      return s.par % 2 == 0 ? MRes{1, 0, out} : MRes{0, ov, 0};
    case 3:
    case 5:  // Future: MakeFuture | Run(e); Task: MakeTask | Schedule(e) | Schedule(e).ThenInline(identity)
      ++m.constructs;
      if (s.par % 2 == 0) {
        return {0, ov, 0};
      }
      if (s.ret % kRetN == 5 && s.par / 4 == 2) {
        ++m.constructs;
      }
      {
        const int e = s.par / 2 % 2;
        if (m.Submit(e)) {
          *ctx = e + 1;
          return {0, ov, 0};
        }
        return {2, 0, -1};
      }
    case 4:
      m.constructs += 2;
      return {0, ov, 0};
    default:  // MakeTask, coroutine Task, coroutine Future: one construct (core / frame), value
      ++m.constructs;
      return {0, ov, 0};
  }
}

// ------------------------------------------------------------------------------------------------ real interpreter
template <typename W>
auto Val(int x) {
  if constexpr (std::is_void_v<W>) {
    return;
  } else {
    return x;
  }
}
yaclib::Task<int, TErr> CoTaskInt(int x) {
  co_return x;
}
yaclib::Task<void, TErr> CoTaskVoid() {
  co_return{};
}
// A coroutine Task used as the head of a lazy pipeline: its frame owns a Tracked parameter from creation on (released
// with the frame also when the Task is dropped without ever being started) and its body must not run before the start.
yaclib::Task<int, TErr> CoHead(Ctx* cp, vf::Guard g) {
  cp->head_ran = true;
  g.Use();
  co_return 1;
}
yaclib::Future<int, TErr> CoFutInt(int x) {
  co_return x;
}
yaclib::Future<void, TErr> CoFutVoid() {
  co_return{};
}

template <typename W, int Ret>
auto Produce(Ctx& c, const Step& s, int in) {
  const int out = in + 1;
  if constexpr (Ret == 0) {
    return Val<W>(out);
  } else if constexpr (Ret == 1) {
    if (s.par % 3 == 0) {
      if constexpr (std::is_void_v<W>) {
        return R<W>{std::in_place};
      } else {
        return R<W>{out};
      }
    }
    if (s.par % 3 == 1) {
      return R<W>{TErr{out}};
    }
    return R<W>{std::make_exception_ptr(Boom{out})};
  } else if constexpr (Ret == 2) {
    if (s.par % 2 == 0) {
      throw Boom{out};
    }
    return Val<W>(out);
  } else if constexpr (Ret == 3) {
    if (s.par % 2 == 0) {
      if constexpr (std::is_void_v<W>) {
        return yaclib::MakeFuture<void, TErr>();
      } else {
        return yaclib::MakeFuture<W, TErr>(out);
      }
    }
    return yaclib::Run<TErr>(c.ex[s.par / 2 % 2], [out] { return Val<W>(out); }).On(nullptr);
  } else if constexpr (Ret == 4) {
    if constexpr (std::is_void_v<W>) {
      return yaclib::Split(yaclib::MakeFuture<void, TErr>());
    } else {
      return yaclib::Split(yaclib::MakeFuture<W, TErr>(out));
    }
  } else if constexpr (Ret == 5) {
    if (s.par % 2 == 1) {
      // a lazy head on one of the two executors (possibly the one this step itself runs on, possibly refusing by now):
      // flattening starts it, its Submit is the executor's decision exactly as for the eager Run above
      auto head = yaclib::Schedule<TErr>(c.ex[s.par / 2 % 2], [out] {
        return Val<W>(out);
      });
      if (s.par / 4 == 2) {  // a chain of two cores is returned: the flattening starts it from its tail
        if constexpr (std::is_void_v<W>) {
          return std::move(head).ThenInline([] {
          });
        } else {
          return std::move(head).ThenInline([](int x) {
            return x;
          });
        }
      }
      return head;
    }
    if constexpr (std::is_void_v<W>) {
      return yaclib::MakeTask<void, TErr>();
    } else {
      return yaclib::MakeTask<W, TErr>(out);
    }
  } else if constexpr (Ret == 6) {
    if constexpr (std::is_void_v<W>) {
      return CoTaskVoid();
    } else {
      return CoTaskInt(out);
    }
  } else {
    if constexpr (std::is_void_v<W>) {
      return CoFutVoid();
    } else {
      return CoFutInt(out);
    }
  }
}
template <typename H>
struct VT;
template <template <typename, typename> class T, typename V, typename E>
struct VT<T<V, E>> {
  using type = V;
};
template <typename H>
void Extend(H h, Ctx& c);

int ExcId(const std::exception_ptr& e) {
  try {
    std::rethrow_exception(e);
  } catch (const Boom& b) {
    return b.id;
  } catch (...) {
    return -99;
  }
}

template <typename V>
void Record(Ctx& c, R<V>&& r) {
  c.fstate = static_cast<int>(r.State());
  if (r.State() == yaclib::ResultState::Error) {
    c.fcode = std::as_const(r).Error().code;
  } else if (r.State() == yaclib::ResultState::Exception) {
    c.fcode = ExcId(std::as_const(r).Exception());
  }
  if constexpr (!std::is_void_v<V>) {
    if (r) {
      c.fval = std::move(r).Value();
    }
  }
}

// co_await task rethrows an Error as ResultError<E>; the wrapper turns it back into the Error so that the wrapper's
// own Result equals the Task's Result (an exception stays the same exception object)
yaclib::Future<int, TErr> CoStartInt(yaclib::Task<int, TErr> t) {
  try {
    co_return co_await std::move(t);
  } catch (const yaclib::ResultError<TErr>& e) {
    co_return TErr{e.Get().code};
  }
}
yaclib::Future<void, TErr> CoStartVoid(yaclib::Task<void, TErr> t) {
  try {
    co_await std::move(t);
  } catch (const yaclib::ResultError<TErr>& e) {
    co_return TErr{e.Get().code};
  }
  co_return{};
}
template <typename V>
yaclib::Future<V, TErr> CoAwaitStart(yaclib::Task<V, TErr> t, bool keep) {
  co_await Await(t);
  if (keep) {
    // the Result is read in place; the Task that already completed dies with the frame ("just releases its result")
    R<V> r = std::as_const(t).Touch();
    co_return r;
  }
  co_return std::move(t).Touch();
}

template <typename H>
void FinishEager(H h, Ctx& c) {
  using V = typename VT<H>::type;
  if (c.late_kind >= 0) {
    if (c.late_kind == 0) {
      std::move(c.late).Set(1);
    } else if (c.late_kind == 2) {
      std::move(c.late).Set(TErr{7});
    } else {
      std::move(c.late).Set(std::make_exception_ptr(Boom{7}));
    }
  }
  while (!h.Ready()) {
    const bool a = c.ex[0].Drain(), b = c.ex[1].Drain();
    if (!a && !b) {
      break;
    }
  }
  if (!h.Ready()) {
    c.fstate = -2;
    std::move(h).Detach();
    return;
  }
  Record<V>(c, std::move(h).Get());
}

template <typename H>
void Finish(H h, Ctx& c) {
  using V = typename VT<H>::type;
  if constexpr (yaclib::is_task_v<H>) {
    if (!c.log.empty() || c.ex[0].submits != 0 || c.ex[1].submits != 0 || c.head_ran) {
      c.ran_before_start = true;
    }
    if (c.abandon) {
      c.abandoned = true;
      if (c.abandon_by_assignment) {
        // t = std::move(other): the unstarted pipeline moves into `other` and is cancelled when that one dies
        H other;
        if constexpr (std::is_void_v<V>) {
          other = yaclib::MakeTask<void, TErr>();
        } else {
          other = yaclib::MakeTask<V, TErr>(V{});
        }
        h = std::move(other);
      }
      { H drop = std::move(h); }
      while (c.ex[0].Drain() | c.ex[1].Drain()) {
      }
      c.fstate = -3;
      return;
    }
    auto& se = c.ex[c.start_exec];
    switch (c.start) {
      case kToFuture:
        return FinishEager(std::move(h).ToFuture(), c);
      case kToFutureOn:
        return FinishEager(std::move(h).ToFuture(se), c);
      case kGet:
        return Record<V>(c, std::move(h).Get());
      case kDetach:
      case kDetachOn: {
        Ctx* cp = &c;
        auto sunk = std::move(h).ThenInline([cp](R<V>&& r) {
          cp->sink_called = true;
          Record<V>(*cp, std::move(r));
        });
        if (c.start == kDetach) {
          std::move(sunk).Detach();
        } else {
          std::move(sunk).Detach(se);
        }
        while (c.ex[0].Drain() | c.ex[1].Drain()) {
        }
        if (!c.sink_called) {
          c.fstate = -2;
        }
        return;
      }
      case kInnerTask: {
        auto outer = yaclib::MakeFuture<void, TErr>().ThenInline([t = std::move(h)]() mutable { return std::move(t); });
        return FinishEager(std::move(outer), c);
      }
      case kCoAwait:
        if constexpr (std::is_void_v<V>) {
          return FinishEager(CoStartVoid(std::move(h)), c);
        } else {
          return FinishEager(CoStartInt(std::move(h)), c);
        }
      default:
        return FinishEager(CoAwaitStart<V>(std::move(h), c.start_exec == 1), c);
    }
  } else {
    FinishEager(std::move(h), c);
  }
}

template <int Mode, typename H, typename F>
auto Attach(H&& h, Ctx& c, const Step& s, F&& f) {
  if constexpr (Mode == 0) {
    return std::move(h).ThenInline(std::forward<F>(f));
  } else if constexpr (Mode == 1) {
    return std::move(h).Then(c.ex[s.par % 2], std::forward<F>(f));
  } else {
    return std::move(h).Then(std::forward<F>(f));
  }
}

template <int Mode, int Sig, typename W, int Ret, typename H>
void Apply(H h, Ctx& c, const Step& s) {
  using V = typename VT<H>::type;
  const int id = static_cast<int>(c.pc);
  Ctx* cp = &c;
  const Step st = s;
  vf::Guard g;
  auto enter = [cp, id](const vf::Guard& gg) {
    gg.Use();
    ++cp->guards_used;
    cp->log.push_back({id, g_ctx});
  };
  if constexpr (Sig == 0) {
    if constexpr (std::is_void_v<V>) {
      Extend(Attach<Mode>(std::move(h), c, s,
                          [cp, st, g, enter, hc = c.TakeCap()]() {
                            enter(g);
                            return Produce<W, Ret>(*cp, st, 0);
                          }),
             c);
    } else {
      Extend(Attach<Mode>(std::move(h), c, s,
                          [cp, st, g, enter, hc = c.TakeCap()](V v) {
                            enter(g);
                            return Produce<W, Ret>(*cp, st, v);
                          }),
             c);
    }
  } else if constexpr (Sig == 1) {
    Extend(Attach<Mode>(std::move(h), c, s,
                        [cp, st, g, enter, hc = c.TakeCap()](R<V>&& r) {
                          enter(g);
                          return Produce<W, Ret>(*cp, st, static_cast<int>(r.State()));
                        }),
           c);
  } else if constexpr (Sig == 2) {
    Extend(Attach<Mode>(std::move(h), c, s,
                        [cp, st, g, enter, hc = c.TakeCap()](TErr e) {
                          enter(g);
                          return Produce<W, Ret>(*cp, st, e.code);
                        }),
           c);
  } else {
    Extend(Attach<Mode>(std::move(h), c, s,
                        [cp, st, g, enter, hc = c.TakeCap()](std::exception_ptr e) {
                          enter(g);
                          return Produce<W, Ret>(*cp, st, ExcId(e));
                        }),
           c);
  }
}
template <int Mode, int Sig, typename W, typename H>
void ApplyRet(H h, Ctx& c, const Step& s) {
  switch (s.ret % kRetN) {
    case 0:
      return Apply<Mode, Sig, W, 0>(std::move(h), c, s);
    case 1:
      return Apply<Mode, Sig, W, 1>(std::move(h), c, s);
    case 2:
      return Apply<Mode, Sig, W, 2>(std::move(h), c, s);
    case 3:
      return Apply<Mode, Sig, W, 3>(std::move(h), c, s);
    case 4:
      return Apply<Mode, Sig, W, 4>(std::move(h), c, s);
    case 5:
      return Apply<Mode, Sig, W, 5>(std::move(h), c, s);
    case 6:
      return Apply<Mode, Sig, W, 6>(std::move(h), c, s);
    default:
      return Apply<Mode, Sig, W, 7>(std::move(h), c, s);
  }
}
template <int Mode, typename H>
void ApplySig(H h, Ctx& c, const Step& s) {
  using V = typename VT<H>::type;
  using O = std::conditional_t<std::is_void_v<V>, int, void>;
  switch (s.sig % 4) {
    case 0:
      if (s.w % 2 != 0) {
        return ApplyRet<Mode, 0, O>(std::move(h), c, s);
      }
      return ApplyRet<Mode, 0, V>(std::move(h), c, s);
    case 1:
      if (s.w % 2 != 0) {
        return ApplyRet<Mode, 1, O>(std::move(h), c, s);
      }
      return ApplyRet<Mode, 1, V>(std::move(h), c, s);
    case 2:
      return ApplyRet<Mode, 2, V>(std::move(h), c, s);
    default:
      return ApplyRet<Mode, 3, V>(std::move(h), c, s);
  }
}
template <typename T>
inline constexpr bool kHasOn = false;
template <typename V, typename E>
inline constexpr bool kHasOn<yaclib::FutureOn<V, E>> = true;
template <typename V, typename E>
inline constexpr bool kHasOn<yaclib::Task<V, E>> = true;
int EffMode(const Step& s, bool has_on) {
  const int m = s.mode % 3;
  return (m == 2 && !has_on) ? 0 : m;
}
template <typename H>
void Extend(H h, Ctx& c) {
  if (c.pc == c.prog.size()) {
    return Finish(std::move(h), c);
  }
  const Step s = c.prog[c.pc++];
  switch (EffMode(s, kHasOn<H>)) {
    case 0:
      return ApplySig<0>(std::move(h), c, s);
    case 1:
      return ApplySig<1>(std::move(h), c, s);
    default:
      if constexpr (kHasOn<H>) {
        return ApplySig<2>(std::move(h), c, s);
      } else {
        return ApplySig<0>(std::move(h), c, s);
      }
  }
}

// ------------------------------------------------------------------------------------------------ one program
struct Params {
  int source, se, rej[2], start, start_exec;
  bool abandon, immediate;
  // shape hit by the known finding "LazyContract head started through Here/Next" (known_findings.txt): not executed by
  // the search (counted as excluded) unless the case explicitly asks for it (hdr[8] == 1: the known-finding replay file)
  bool known_shape = false, force = false;
  bool abandon_by_assignment = false;  // the unstarted Task is overwritten by move-assignment instead of being destroyed
  int head_fail = 0;  // MakeTask head: 0 holds a value, 1 an error (code 7), 2 an exception (id 7)
  int run_variant = 0;  // eager Run sources: 0 Run(e, f), 1 AsyncContract<V>(e, f) with f(Promise) setting the value
  std::vector<Step> prog;
};

Params Decode(const Case& c) {
  Params p{};
  p.source = c.H(0) % kSourceN;
  p.se = c.H(1) % 2;
  p.head_fail = c.H(0) % kSourceN == kMakeTask && p.se == 0 ? c.H(1) / 2 % 3 : 0;
  for (int e = 0; e < 2; ++e) {
    const int v = c.H(static_cast<std::size_t>(2 + e)) % 12;
    p.rej[e] = v < 4 ? v : 1 << 30;  // one third of the executors refuse from their k-th Submit (k = 0..3)
  }
  p.start = c.H(4) % kStartN;
  p.start_exec = c.H(5) % 2;
  const bool lazy = p.source >= kMakeTask;
  p.abandon = lazy && c.H(6) % 4 == 0;
  p.abandon_by_assignment = p.abandon && c.H(6) / 4 % 2 == 1;
  p.immediate = c.H(7) % 2 == 1 || (lazy && !p.abandon && p.start == kGet);
  if (!lazy) {
    p.run_variant = c.H(4) % 2;  // (the start mode field is free for eager sources)
    p.start = kToFuture;
  }
  p.force = c.H(8) == 1;
  // (until /repo commit "fix: LazyContract head started by a continuation or co_await" this shape was excluded as a
  // known finding; it is generated like every other one now and its old replay file stays in the regression corpus)
  p.known_shape = false;
  for (std::size_t i = 0; i < c.Records() && i < 7; ++i) {
    const int* r = c.Rec(i);
    p.prog.push_back({r[0], r[1], r[2], r[3], r[4]});
  }
  return p;
}

struct Outcome {
  // real
  int fstate = -1, fval = 0, fcode = 0;
  std::vector<Ev> log;
  int submits[2] = {0, 0};
  long news = 0, live_delta = 0;
  bool ran_before_start = false, abandoned = false, escaped = false;
  long tracked_live = 0;
  const char* tracked_err = nullptr;
  // model
  MRes cur{};
  bool vvoid = false;
  std::vector<Ev> mlog;
  int msubmits[2] = {0, 0};
  int constructs = 0;
  bool rejected = false;
};

void RunModel(const Params& p, Outcome& o) {
  Model m;
  m.reject_from[0] = p.rej[0];
  m.reject_from[1] = p.rej[1];
  MRes cur{};
  int exec = 0;  // inherited executor: 0 inline, 1, 2, -1 = the stopped inline executor installed by Cancel
  int ctx = 0;
  bool has_on = false, vvoid = false;
  const bool lazy = p.source >= kMakeTask;
  const int se = p.se;
  m.constructs = 1;
  // lazy sources: the head runs when started; which executor the head is submitted to depends on the start mode
  int head_exec = p.source == kSchedule ? se + 1 : p.source == kScheduleStopped ? -1 : 0;
  if (lazy && !p.abandon && (p.start == kToFutureOn || p.start == kDetachOn)) {
    head_exec = p.start_exec + 1;
  }
  switch (p.source) {
    case kReadyValue:
    case kLateValue:
      cur = {0, 1, 0};
      break;
    case kReadyError:
    case kLateError:
      cur = {2, 0, 7};
      break;
    case kReadyException:
    case kLateException:
      cur = {1, 0, 7};
      break;
    case kRun:
      exec = se + 1;
      has_on = true;
      if (m.Submit(se)) {
        cur = {0, 1, 0};
        ctx = se + 1;
      } else {
        cur = {2, 0, -1};
      }
      break;
    case kRunStopped:
      exec = -1;  // the library's stopped Inline executor: refuses everything, inherited by Then()
      has_on = true;
      cur = {2, 0, -1};
      break;
    default:
      has_on = true;
      if (p.abandon) {
        cur = {2, 0, -1};
        exec = -1;
      }
      // the head of a started lazy pipeline is handled below, after the steps were attached (pre-start: nothing runs)
  }
  // The steps of a lazy pipeline are attached first and run after the start; the model can evaluate them in one pass
  // because nothing in the attach phase is observable except "nothing ran".
  if (lazy && p.abandon_by_assignment) {
    ++m.constructs;  // the MakeTask that overwrites the abandoned pipeline
  }
  if (lazy && !p.abandon) {
    exec = head_exec;
    if (p.start == kInnerTask) {
      m.constructs += 2;  // MakeFuture + ThenInline of the eager wrapper
    } else if (p.start == kCoAwait || p.start == kAwait) {
      m.constructs += 1;  // coroutine frame
    } else if (p.start == kDetach || p.start == kDetachOn) {
      m.constructs += 1;  // sink step
    }
    const MRes stored = p.head_fail == 1 ? MRes{2, 0, 7} : p.head_fail == 2 ? MRes{1, 0, 7} : MRes{0, 1, 0};
    if (head_exec == 0) {
      cur = stored;
    } else if (head_exec == -1) {
      cur = {2, 0, -1};
    } else if (m.Submit(head_exec - 1)) {
      cur = stored;
      ctx = head_exec;
    } else {
      cur = {2, 0, -1};  // a refused (or cancelled) ready head is replaced by StopError whatever it held
    }
  }
  for (std::size_t i = 0; i < p.prog.size(); ++i) {
    const Step& s = p.prog[i];
    const int mode = EffMode(s, has_on);
    const int sig = s.sig % 4;
    const bool wother = sig < 2 && s.w % 2 != 0;
    const bool wvoid = wother ? !vvoid : vvoid;
    ++m.constructs;
    MRes in = cur;
    const bool call_type = mode != 0;
    const int target = mode == 1 ? s.par % 2 + 1 : exec;
    if (mode == 1) {
      exec = target;
      has_on = true;
    }
    // where a step runs is only fixed for Call-type steps whose executor accepted the job; a refused step runs its
    // (Result / error) callback inline inside Drop, wherever that happens (the spike's model predicted a context for
    // it and raised a false alarm with immediate executors)
    int run_ctx = -1;
    if (call_type) {
      if (target == 0) {
        // inline executor: called inline
      } else if (target == -1) {
        in = {2, 0, -1};
      } else if (m.Submit(target - 1)) {
        run_ctx = target;
        ctx = target;
      } else {
        in = {2, 0, -1};
      }
    }
    const bool invoke = sig == 1 || (sig == 0 && in.st == 0) || (sig == 2 && in.st == 2) || (sig == 3 && in.st == 1);
    if (invoke) {
      m.log.push_back({static_cast<int>(i) + 1, run_ctx});
      cur = ModelProduce(m, s, InputOf(sig, in), wvoid, &ctx);
      vvoid = wvoid;
    } else {
      cur = in;
      if (sig == 0) {
        vvoid = wvoid;
      }
    }
  }
  o.cur = cur;
  o.vvoid = vvoid;
  o.mlog = m.log;
  o.msubmits[0] = m.submits[0];
  o.msubmits[1] = m.submits[1];
  o.constructs = m.constructs;
  o.rejected = m.submits[0] > m.reject_from[0] || m.submits[1] > m.reject_from[1];
}

void RunReal(const Params& p, Outcome& o, int source_override = -1) {
  Ctx c;
  c.ex[0].tag = 1;
  c.ex[1].tag = 2;
  c.ex[0].reject_from = p.rej[0];
  c.ex[1].reject_from = p.rej[1];
  c.ex[0].immediate = c.ex[1].immediate = p.immediate;
  c.prog = p.prog;
  c.abandon = p.abandon;
  c.abandon_by_assignment = p.abandon_by_assignment;
  c.start = p.start;
  c.start_exec = p.start_exec;
  c.log.reserve(64);
  c.caps.reserve(8);
  for (int i = 0; i < 8; ++i) {
    c.caps.emplace_back(i);
  }
  const int source = source_override >= 0 ? source_override : p.source;
  const int se = p.se;
  vf::TS().Reset();
  const long news0 = vf::L().news, live0 = vf::L().Live();
  try {
    switch (source) {
      case kReadyValue:
        Extend(yaclib::MakeFuture<int, TErr>(1), c);
        break;
      case kReadyError:
        Extend(yaclib::MakeFuture<int, TErr>(TErr{7}), c);
        break;
      case kReadyException:
        Extend(yaclib::MakeFuture<int, TErr>(std::make_exception_ptr(Boom{7})), c);
        break;
      case kRun:
        if (p.run_variant == 1 && source_override < 0) {
          // the functor's Tracked capture is used after Set: the functor must stay alive while it runs even if the
          // fulfilled state is consumed and released meanwhile
          Extend(yaclib::AsyncContract<int, TErr>(c.ex[se], [g = vf::Guard{}](yaclib::Promise<int, TErr> pr) {
            std::move(pr).Set(1);
            g.Use();
          }), c);
        } else {
          Extend(yaclib::Run<TErr>(c.ex[se], [] { return 1; }), c);
        }
        break;
      case kLateValue:
      case kLateError:
      case kLateException: {
        auto [f, pr] = yaclib::MakeContract<int, TErr>();
        c.late = std::move(pr);
        c.late_kind = source == kLateValue ? 0 : source == kLateError ? 2 : 1;
        Extend(std::move(f), c);
        break;
      }
      case kRunStopped:
        if (p.run_variant == 1 && source_override < 0) {
          Extend(yaclib::AsyncContract<int, TErr>(yaclib::MakeInline(yaclib::StopTag{}),
                                                  [](yaclib::Promise<int, TErr> pr) { std::move(pr).Set(1); }),
                 c);
        } else {
          Extend(yaclib::Run<TErr>(yaclib::MakeInline(yaclib::StopTag{}), [] { return 1; }), c);
        }
        break;
      case kMakeTask:
        if (p.se == 1) {  // same observable behaviour as MakeTask(1): one allocation (the frame), value 1, lazy
          Extend(CoHead(&c, vf::Guard{}), c);
        } else if (p.head_fail == 1) {
          Extend(yaclib::MakeTask<int, TErr>(TErr{7}), c);
        } else if (p.head_fail == 2) {
          Extend(yaclib::MakeTask<int, TErr>(std::make_exception_ptr(Boom{7})), c);
        } else {
          Extend(yaclib::MakeTask<int, TErr>(1), c);
        }
        break;
      case kScheduleStopped:
        Extend(yaclib::Schedule<TErr>(yaclib::MakeInline(yaclib::StopTag{}), [] { return 1; }), c);
        break;
      case kLazyContract:
        Extend(yaclib::LazyContract<int, TErr>([g = vf::Guard{}](yaclib::Promise<int, TErr> pr) {
          std::move(pr).Set(1);
          g.Use();  // (see AsyncContract above; here the consumers are always attached before the functor runs)
        }), c);
        break;
      default:
        Extend(yaclib::Schedule<TErr>(c.ex[se], [] { return 1; }), c);
    }
  } catch (...) {
    o.escaped = true;
  }
  o.news = vf::L().news - news0;
  o.live_delta = vf::L().Live() - live0 - (c.log.capacity() > 64 ? 0 : 0);
  o.fstate = c.fstate;
  o.fval = c.fval;
  o.fcode = c.fcode;
  o.submits[0] = c.ex[0].submits;
  o.submits[1] = c.ex[1].submits;
  o.ran_before_start = c.ran_before_start;
  o.abandoned = c.abandoned;
  o.tracked_err = vf::TS().err;
  o.log = std::move(c.log);
  // c (and with it every pending object) is destroyed by the caller's scope; balance is taken after that
}

enum Clause { kC02, kC05, kC12, kC20, kC03 };

std::string Compare(const Params& p, int clause) {
  const long live0 = vf::L().Live();
  Outcome o;
  RunModel(p, o);
  RunReal(p, o);
  char buf[200];
  const bool lazy = p.source >= kMakeTask;
  if (o.escaped) {
    return "an exception escaped the pipeline";
  }
  switch (clause) {
    case kC02:
      if (!o.abandoned && o.fstate != o.cur.st) {
        std::snprintf(buf, sizeof buf, "final state differs: real=%d model=%d", o.fstate, o.cur.st);
        return buf;
      }
      if (!o.abandoned && o.cur.st == 0 && !o.vvoid && o.fval != o.cur.val) {
        std::snprintf(buf, sizeof buf, "final value differs: real=%d model=%d", o.fval, o.cur.val);
        return buf;
      }
      if (!o.abandoned && o.cur.st != 0 && o.fcode != o.cur.code) {
        std::snprintf(buf, sizeof buf, "failure payload differs: real=%d model=%d", o.fcode, o.cur.code);
        return buf;
      }
      if (o.log.size() != o.mlog.size()) {
        std::snprintf(buf, sizeof buf, "set of invoked callbacks differs: real=%zu model=%zu", o.log.size(), o.mlog.size());
        return buf;
      }
      for (std::size_t i = 0; i < o.mlog.size(); ++i) {
        if (o.log[i].id != o.mlog[i].id) {
          return "order of invoked callbacks differs";
        }
      }
      return "";
    case kC05:
      for (std::size_t i = 0; i < o.mlog.size() && i < o.log.size(); ++i) {
        if (o.log[i].id == o.mlog[i].id && o.mlog[i].ctx >= 0 && o.log[i].ctx != o.mlog[i].ctx) {
          std::snprintf(buf, sizeof buf, "Call-type step %d ran in executor %d, model says %d", o.mlog[i].id, o.log[i].ctx,
                        o.mlog[i].ctx);
          return buf;
        }
      }
      for (int e = 0; e < 2; ++e) {
        if (o.submits[e] != o.msubmits[e]) {
          std::snprintf(buf, sizeof buf, "executor %d received %d Submits, model says %d", e + 1, o.submits[e], o.msubmits[e]);
          return buf;
        }
      }
      if (o.rejected && !o.abandoned && (o.fstate != o.cur.st || (o.cur.st != 0 && o.fcode != o.cur.code))) {
        return "after a refused Submit the chain did not complete with the model's result";
      }
      return "";
    case kC12:
      if (!lazy) {
        return "";
      }
      if (o.ran_before_start) {
        return "a lazy pipeline ran something before it was started";
      }
      if (o.abandoned) {
        // no value callback may run; Result / error callbacks legitimately see StopError on live explicit executors
        if (o.log.size() != o.mlog.size()) {
          return "abandoned Task: set of callbacks that ran differs from the cancelled-chain model";
        }
        if (o.tracked_err == nullptr && vf::TS().Live() != 0) {
          return "abandoned Task: not every captured functor was released";
        }
        return "";
      }
      if (o.fstate != o.cur.st || (o.cur.st == 0 && !o.vvoid && o.fval != o.cur.val) || (o.cur.st != 0 && o.fcode != o.cur.code)) {
        return "started Task: final Result differs from the reference model";
      }
      for (std::size_t i = 0; i + 1 < o.log.size(); ++i) {
        if (o.log[i].id >= o.log[i + 1].id) {
          return "started Task: a step ran twice or out of pipeline order";
        }
      }
      // eager twin (differential): same steps behind Run / MakeFuture; only meaningful without refusing executors
      if (p.rej[0] > 99 && p.rej[1] > 99 && (p.start == kToFuture || p.start == kGet || p.start == kInnerTask || p.start == kCoAwait || p.start == kAwait)) {
        Outcome twin;
        Params q = p;
        q.start = kToFuture;
        RunReal(q, twin,
                p.source == kMakeTask && p.head_fail == 1   ? kReadyError
                : p.source == kMakeTask && p.head_fail == 2 ? kReadyException
                : p.source == kMakeTask || p.source == kLazyContract ? kReadyValue
                : p.source == kScheduleStopped                       ? kRunStopped
                                                                     : kRun);
        if (twin.fstate != o.fstate || twin.fval != o.fval || twin.fcode != o.fcode) {
          std::snprintf(buf, sizeof buf, "lazy pipeline and its eager twin differ: lazy=(%d,%d,%d) eager=(%d,%d,%d)", o.fstate,
                        o.fval, o.fcode, twin.fstate, twin.fval, twin.fcode);
          return buf;
        }
      }
      return "";
    case kC20:
      if (o.news > o.constructs) {
        std::snprintf(buf, sizeof buf, "operator new called %ld times for %d pipeline constructs", o.news, o.constructs);
        return buf;
      }
      return "";
    default: {
      if (o.tracked_err != nullptr) {
        return o.tracked_err;
      }
      std::vector<Ev>().swap(o.log);
      std::vector<Ev>().swap(o.mlog);
      if (vf::TS().Live() != 0) {
        std::snprintf(buf, sizeof buf, "functor captures constructed != destroyed at quiescence (live=%ld)", vf::TS().Live());
        return buf;
      }
      if (vf::L().Live() != live0) {
        std::snprintf(buf, sizeof buf, "heap blocks remain after the pipeline is quiescent (delta=%ld)", vf::L().Live() - live0);
        return buf;
      }
      return "";
    }
  }
}

class PipeFamily final : public vf::Family {
 public:
  PipeFamily(const char* name, const char* prop, int clause) : _name{name}, _prop{prop}, _clause{clause} {
  }
  const char* Name() const final {
    return _name;
  }
  const char* Property() const final {
    return _prop;
  }
  const char* Rule() const final {
    return "program = source (ready value/error/exception, Run(e), Run(stopped Inline), contract fulfilled after building, "
           "MakeTask, Schedule(e), Schedule(stopped Inline), LazyContract) x <= 7 steps (ThenInline | Then(e) | Then() inherited; callback taking value | Result | error "
           "type | exception_ptr; output int|void; returning plain | Result(value/error/exception) | throwing | Future "
           "(ready or from Run(e')) | SharedFuture | Task (MakeTask or coroutine) | coroutine Future) x two instrumented executors (queued or immediate, refusing "
           "from their k-th Submit) x lazy start mode (ToFuture, ToFuture(e), Get, Detach, Detach(e), returned from a "
           "continuation, co_await, Await) or abandonment; oracle = ~150-line reference interpreter over plain values (final "
           "state and payload, ordered invoked callbacks, executor of every Call-type step, Submits per executor, "
           "constructs) + eager twin + Tracked functor captures + heap ledger; non-trivial = >= 2 steps and one of: a "
           "failure routed past a value callback, a recovery callback fired, an unwrapping step, an executor hop, a "
           "refused Submit, a lazy start other than ToFuture or an abandonment; distinct = program";
  }
  rc::Gen<Case> Gen() const final {
    return rc::gen::exec([]() {
      Case c;
      c.recw = 5;
      c.hdr = {vf::Pick(0, kSourceN), vf::Pick(0, 6), vf::Pick(0, 12), vf::Pick(0, 12),
               vf::Pick(0, kStartN),  vf::Pick(0, 2), vf::Pick(0, 8),  vf::Pick(0, 2)};
      const int n = vf::Pick(0, 8);
      for (int i = 0; i < n; ++i) {
        c.prog.push_back(vf::Pick(0, 3));
        c.prog.push_back(vf::Pick(0, 4));
        c.prog.push_back(vf::Pick(0, 2));
        c.prog.push_back(vf::Pick(0, kRetN));
        c.prog.push_back(vf::Pick(0, 12));
      }
      return c;
    });
  }
  std::string Describe(const Case& c) const final {
    const Params p = Decode(c);
    char b[128];
    std::string s = std::string("source=") +
                    (p.source == kMakeTask && p.se == 1                                  ? "coroutine Task head"
                     : p.source == kMakeTask && p.head_fail != 0                         ? (p.head_fail == 1 ? "MakeTask(error)" : "MakeTask(exception)")
                     : (p.source == kRun || p.source == kRunStopped) && p.run_variant == 1 ? (p.source == kRun ? "AsyncContract(e)" : "AsyncContract(stopped Inline)")
                                                                                           : kSourceName[p.source]) +
                    " se=" + std::to_string(p.se + 1);
    std::snprintf(b, sizeof b, " refuse_from=[%d,%d] exec=%s", p.rej[0] > 99 ? -1 : p.rej[0], p.rej[1] > 99 ? -1 : p.rej[1],
                  p.immediate ? "immediate" : "queued");
    s += b;
    if (p.source >= kMakeTask) {
      s += p.abandon ? (p.abandon_by_assignment ? " ABANDONED(overwritten by move-assignment)" : " ABANDONED") : std::string(" start=") + kStartName[p.start] + "(e" + std::to_string(p.start_exec + 1) + ")";
      if (!p.abandon && p.start == kAwait && p.start_exec == 1) {
        s += "[completed Task read in place and destroyed]";
      }
    }
    s += " steps=[";
    for (auto& st : p.prog) {
      std::snprintf(b, sizeof b, "%s(%s)->%s%s:p%d ", kModeName[st.mode % 3], kSigName[st.sig % 4], kRetName[st.ret % kRetN],
                    st.sig % 4 < 2 && st.w % 2 != 0 ? "/other-type" : "", st.par);
      s += b;
    }
    return s + "]";
  }
  Verdict Run(const Case& c, Explorer&) final {
    Verdict v;
    const Params p = Decode(c);
    if (p.known_shape && !p.force) {
      v.excluded = true;
      v.hash = c.ProgHash();
      return v;
    }
    const std::string e = Compare(p, _clause);
    if (!e.empty()) {
      v.Fail(e);
    }
    // non-triviality from the model
    Outcome o;
    RunModel(p, o);
    bool interesting = p.source >= kMakeTask && (p.abandon || p.start != kToFuture);
    interesting |= o.rejected;
    for (std::size_t i = 0; i < p.prog.size(); ++i) {
      const auto& st = p.prog[i];
      interesting |= st.ret % kRetN >= 3 || st.mode % 3 == 1 || st.sig % 4 >= 2;
    }
    interesting |= o.mlog.size() < p.prog.size();
    v.nontrivial = p.prog.size() >= 2 && interesting;
    v.hash = c.ProgHash();
    v.tags.push_back(p.source == kMakeTask && p.se == 1                                    ? "coroutine Task head"
                     : (p.source == kRun || p.source == kRunStopped) && p.run_variant == 1 ? "AsyncContract (eager, Promise-taking functor)"
                                                                                           : kSourceName[p.source]);
    if (o.rejected) {
      v.tags.push_back("refused-submit");
    }
    if (p.source >= kMakeTask) {
      v.tags.push_back(p.abandon ? "abandoned" : kStartName[p.start]);
    }
    return v;
  }

 private:
  const char* _name;
  const char* _prop;
  int _clause;
};

}  // namespace

// one fuzz target checks all five clauses of a program (the first failing clause is reported)
class AllClauses final : public vf::Family {
 public:
  const char* Name() const final {
    return "pipefuzz";
  }
  const char* Property() const final {
    return "C02";
  }
  const char* Rule() const final {
    return "libFuzzer (coverage-guided) over the byte encoding of the same pipeline programs; bytes are decoded into "
           "fixed-width step records; oracle = all five clauses of the reference-model comparison (result, placement, "
           "laziness + eager twin, allocation bound, release); non-trivial as for the rapidcheck family";
  }
  rc::Gen<Case> Gen() const final {
    return rc::gen::just(Case{});
  }
  std::string Describe(const Case& c) const final {
    return PipeFamily{"pipeline", "C02", kC02}.Describe(c);
  }
  Verdict Run(const Case& c, Explorer& ex) final {
    Verdict v;
    const Params p = Decode(c);
    if (p.known_shape && !p.force) {
      v.excluded = true;
      return v;
    }
    for (int clause : {kC02, kC05, kC12, kC20, kC03}) {
      const std::string e = Compare(p, clause);
      if (!e.empty()) {
        v.Fail(e);
        break;
      }
    }
    PipeFamily helper{"pipeline", "C02", kC02};
    Verdict h = helper.Run(c, ex);
    v.nontrivial = h.nontrivial;
    v.hash = h.hash;
    return v;
  }
};
#ifdef VF_FUZZ
#  include "common/fuzz.hpp"
extern "C" int LLVMFuzzerTestOneInput(const std::uint8_t* data, std::size_t size) {
  static AllClauses fam;
  static bool warm = [] {
    Params w{};
    w.source = kReadyException;
    w.rej[0] = w.rej[1] = 1 << 30;
    w.prog.push_back({1, 3, 0, 2, 0});
    (void)Compare(w, kC03);
    (void)Compare(w, kC03);
    return true;
  }();
  (void)warm;
  return vf::FuzzOne(fam, vf::FuzzShape{8, 5, 7, 0}, data, size);
}
#else
int main(int argc, char** argv) {
  {
    // warm-up: one-time allocations (exception machinery, statics) must not fall into the first case's ledger window
    Params w{};
    w.source = kReadyException;
    w.rej[0] = w.rej[1] = 1 << 30;
    w.prog.push_back({1, 3, 0, 2, 0});
    (void)Compare(w, kC03);
    (void)Compare(w, kC03);
  }
  PipeFamily c02{"pipeline", "C02", kC02};
  PipeFamily c05{"placement", "C05", kC05};
  PipeFamily c12{"lazy", "C12", kC12};
  PipeFamily c20{"allocs", "C20", kC20};
  PipeFamily c03{"release", "C03", kC03};
  AllClauses all;
  vf::Driver d{{&c02, &c05, &c12, &c20, &c03, &all}};
  return d.Main(argc, argv);
}
#endif
