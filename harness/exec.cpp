// C07 Strand, C08 FairThreadPool, C05(b) Call-xor-Drop for jobs handed to the library's executors while a pool is
// being stopped - all interleavings chosen by the explorer.
#include "common/driver.hpp"
#include "common/fibers.hpp"
#include "common/host.hpp"
#include "common/testexec.hpp"

#include <yaclib/exe/inline.hpp>
#include <yaclib/exe/job.hpp>
#include <yaclib/exe/manual.hpp>
#include <yaclib/exe/strand.hpp>
#include <yaclib/runtime/fair_thread_pool.hpp>
#include <yaclib_std/thread>

#include <cstdio>
#include <memory>
#include <string>
#include <vector>

namespace {

using vf::Case;
using vf::Explorer;
using vf::Verdict;

enum Under { kPool, kStrandPool, kStrand2Pool, kStrandManual, kStrandInline, kStrandRefusing, kManual, kInline, kInlineStopped, kUnderN };
const char* const kUnderName[] = {"pool",          "strand/pool",       "strand/strand/pool", "strand/manual(drained by a fiber)",
                                  "strand/inline", "strand/refusing-executor", "manual",      "inline",
                                  "inline(stopped)"};
enum StopKind { kStopAfter, kStop, kSoftStop, kHardStop, kStopN };
const char* const kStopName[] = {"Stop after all submits", "Stop", "SoftStop", "HardStop"};

struct Shared {
  int in_strand = 0;
  int max_overlap = 0;
  long clock = 0;
  long stop_begin = -1;  // logical time at which a stop call began (-1: never)
  long final_stop_begin = -1;  // logical time of the closing Stop() after a SoftStop run
  bool after_wait = false;
  const char* err = nullptr;
  int submit_during_batch = 0;
  int stop_overlapped = 0;
  int running = 0;
  void Err(const char* e) {
    if (err == nullptr) {
      err = e;
    }
  }
};

struct TJob final : yaclib::Job {
  Shared* s = nullptr;
  yaclib::IExecutor* resubmit_to = nullptr;
  TJob* child = nullptr;
  int submitter = 0, seq = 0;
  int calls = 0, drops = 0;
  long submit_begin = -1, submit_end = -1, exec_at = -1;
  bool dropped_at_submit_return = false;
  bool serial = false;  // jobs of a strand must never overlap
  int grp = 0;          // 0: submitted to the top of the stack, 1: submitted directly to the inner strand of a 2-strand stack
  int rounds = 1;       // 2: the same node was submitted a second time after it had finished (node reuse, stale `next`)
  void Call() noexcept final {
    ++calls;
    if (s->after_wait) {
      s->Err("a job was Called after FairThreadPool::Wait returned");
    }
    ++s->running;
    if (serial) {
      ++s->in_strand;
      if (s->in_strand > s->max_overlap) {
        s->max_overlap = s->in_strand;
      }
    }
    exec_at = ++s->clock;
    vf::Point();
    if (child != nullptr && resubmit_to != nullptr && calls + drops == 1) {  // (only in the node's first round)
      child->submit_begin = ++s->clock;
      resubmit_to->Submit(*child);
      child->submit_end = ++s->clock;
      child->dropped_at_submit_return = child->drops > 0;
    }
    vf::Point();
    if (serial) {
      --s->in_strand;
    }
    --s->running;
    ++finished;
  }
  void Drop() noexcept final {
    ++drops;
    // like a dropped pipeline step whose successor targets the same executor: Drop re-enters Submit
    if (child != nullptr && resubmit_to != nullptr && resubmit_on_drop && calls + drops == 1) {
      child->submit_begin = ++s->clock;
      resubmit_to->Submit(*child);
      child->submit_end = ++s->clock;
      child->dropped_at_submit_return = child->drops > 0;
    }
    ++finished;
  }
  int finished = 0;  // Call / Drop returned: from here on the executor may not touch the node any more
  bool resubmit_on_drop = false;
};

struct Config {
  int under, workers, submitters, jobs, stop, delay, resub_mask, refuse_from;
  bool split = false;  // strand over strand: odd submitters feed the inner strand directly
  bool reuse = false;  // every submitter re-submits its first job once more after that job finished
  bool strand_checks, pool_checks;
};

struct RunOut {
  bool done = false;
  const char* err = nullptr;
  int called = 0, dropped = 0;
  int nontrivial = 0;
  int reused = 0;
};

void RunCase(Explorer& ex, const Config& cf, RunOut& out) {
  Shared sh;
  std::vector<std::unique_ptr<TJob>> all;
  const bool has_pool = cf.under <= kStrand2Pool;
  const bool serial = cf.under >= kStrandPool && cf.under <= kStrandRefusing;
  bool any_refusal_possible = false;
  bool all_finished_before_stop = false;
  out.done = vf::RunFibers(ex, [&] {
    yaclib::IntrusivePtr<yaclib::FairThreadPool> tp;
    yaclib::IExecutorPtr manual_ptr;
    yaclib::ManualExecutor* manual = nullptr;
    vf::TagInlineExec refusing{5, cf.refuse_from};
    yaclib::IExecutorPtr e, inner;
    switch (cf.under) {
      case kPool:
      case kStrandPool:
      case kStrand2Pool:
        tp = yaclib::MakeFairThreadPool(static_cast<std::uint64_t>(cf.workers));
        e = tp;
        if (cf.under >= kStrandPool) {
          e = yaclib::MakeStrand(e);
        }
        if (cf.under >= kStrand2Pool) {
          inner = e;
          e = yaclib::MakeStrand(e);
        }
        break;
      case kStrandManual:
      case kManual:
        manual_ptr = yaclib::MakeManual();
        manual = static_cast<yaclib::ManualExecutor*>(manual_ptr.Get());
        e = cf.under == kManual ? manual_ptr : yaclib::MakeStrand(manual_ptr);
        break;
      case kStrandInline:
        e = yaclib::MakeStrand(yaclib::IExecutorPtr{yaclib::NoRefTag{}, &yaclib::MakeInline()});
        break;
      case kStrandRefusing:
        e = yaclib::MakeStrand(yaclib::IExecutorPtr{yaclib::NoRefTag{}, &refusing});
        any_refusal_possible = cf.refuse_from >= 0;
        break;
      case kInline:
        e = yaclib::IExecutorPtr{yaclib::NoRefTag{}, &yaclib::MakeInline()};
        break;
      default:
        e = yaclib::IExecutorPtr{yaclib::NoRefTag{}, &yaclib::MakeInline(yaclib::StopTag{})};
        any_refusal_possible = true;
    }
    for (int s = 0; s < cf.submitters; ++s) {
      for (int j = 0; j < cf.jobs; ++j) {
        auto job = std::make_unique<TJob>();
        job->s = &sh;
        job->submitter = s;
        job->seq = j;
        job->serial = serial;
        job->grp = cf.split && inner && s % 2 == 1 ? 1 : 0;
        all.push_back(std::move(job));
      }
    }
    const std::size_t base = all.size();
    for (std::size_t i = 0; i < base; ++i) {
      if (((cf.resub_mask >> (i % 12)) & 1) != 0) {
        auto child = std::make_unique<TJob>();
        child->s = &sh;
        child->submitter = -1;
        child->seq = static_cast<int>(i);
        child->serial = serial;
        all[i]->child = child.get();
        all[i]->resubmit_to = e.Get();
        all[i]->resubmit_on_drop = true;
        all.push_back(std::move(child));
      }
    }
    int submitters_left = cf.submitters;
    std::vector<yaclib_std::thread> ts;
    for (int s = 0; s < cf.submitters; ++s) {
      ts.emplace_back([&, s] {
        for (int j = 0; j < cf.jobs; ++j) {
          vf::Point();
          TJob& job = *all[static_cast<std::size_t>(s * cf.jobs + j)];
          if (sh.in_strand > 0) {
            ++sh.submit_during_batch;
          }
          job.submit_begin = ++sh.clock;
          (job.grp == 1 ? inner : e)->Submit(job);
          job.submit_end = ++sh.clock;
          job.dropped_at_submit_return = job.drops > 0;
        }
        if (cf.reuse) {
          // node reuse: the first job is handed to the executor a second time once it has finished (its `next` link
          // still holds whatever the first round left there), like a coroutine promise re-submitted by On(e)
          TJob& job = *all[static_cast<std::size_t>(s * cf.jobs)];
          for (int spin = 0; spin < 400 && job.finished == 0; ++spin) {
            yaclib_std::this_thread::yield();
          }
          if (job.finished == 1) {
            job.rounds = 2;
            (job.grp == 1 ? inner : e)->Submit(job);
          }
        }
        --submitters_left;
      });
    }
    yaclib_std::thread drainer;
    if (manual != nullptr) {
      drainer = yaclib_std::thread([&] {
        for (;;) {
          (void)manual->Drain();
          if (submitters_left == 0) {
            (void)manual->Drain();
            return;
          }
          yaclib_std::this_thread::yield();
        }
      });
    }
    auto do_stop = [&](int kind) {
      if (sh.running > 0 || submitters_left > 0) {
        ++sh.stop_overlapped;
      }
      sh.stop_begin = ++sh.clock;
      if (kind == kSoftStop) {
        tp->SoftStop();
      } else if (kind == kHardStop) {
        tp->HardStop();
      } else {
        tp->Stop();
      }
    };
    if (has_pool) {
      any_refusal_possible = true;  // the pool is stopped at the latest after all submits; a strand re-submitting
                                    // itself afterwards is legitimately refused
    }
    if (has_pool && cf.stop != kStopAfter) {
      for (int d = 0; d < cf.delay; ++d) {
        yaclib_std::this_thread::yield();
        vf::Point();
      }
      do_stop(cf.stop);
      any_refusal_possible = true;
    }
    for (auto& t : ts) {
      t.join();
    }
    if (manual != nullptr) {
      drainer.join();
    }
    if (has_pool) {
      if (cf.stop == kStopAfter) {
        // give everything submitted the chance to finish before anybody refuses work (bounded: a lost job must end
        // in the "lost" verdict below, not in a livelock)
        for (int spin = 0; spin < 4000; ++spin) {
          std::size_t fin = 0, expected = 0;
          for (std::size_t i = 0; i < all.size(); ++i) {
            const bool is_child = i >= base;
            if (is_child && all[static_cast<std::size_t>(all[i]->seq)]->calls + all[static_cast<std::size_t>(all[i]->seq)]->drops == 0) {
              continue;
            }
            ++expected;
            fin += all[i]->calls + all[i]->drops >= all[i]->rounds ? 1 : 0;
          }
          if (fin == expected && sh.running == 0) {
            all_finished_before_stop = true;
            break;
          }
          yaclib_std::this_thread::yield();
        }
        tp->Stop();
      } else if (cf.stop == kSoftStop) {
        sh.final_stop_begin = ++sh.clock;
        tp->Stop();  // SoftStop may only have recorded the wish; all submitters are done now
      }
      tp->Wait();
      sh.after_wait = true;
    }
  });
  if (!out.done) {
    return;
  }
  if (sh.err != nullptr) {
    out.err = sh.err;
    return;
  }
  const std::size_t nbase = static_cast<std::size_t>(cf.submitters * cf.jobs);
  for (std::size_t i = 0; i < all.size(); ++i) {
    TJob& j = *all[i];
    const bool child = i >= nbase;
    if (child) {
      // a child exists only if its parent was Called
      TJob& parent = *all[static_cast<std::size_t>(j.seq)];
      if (parent.calls + parent.drops == 0) {
        if (j.calls + j.drops != 0) {
          out.err = "child job finished although its parent never ran";
          return;
        }
        continue;
      }
    }
    if (j.calls + j.drops != j.rounds) {
      out.err = j.calls + j.drops < j.rounds ? "job lost: neither Called nor Dropped at quiescence"
                                             : "job finished more than once (Call and/or Drop repeated)";
      return;
    }
    if (j.rounds > 1) {
      ++out.reused;
      out.called += j.calls;
      out.dropped += j.drops;
      if (j.drops > 0 && !any_refusal_possible) {
        out.err = "job Dropped although no executor ever refused work";
        return;
      }
      continue;  // the submit-time based clauses below speak about one submission
    }
    out.called += j.calls;
    out.dropped += j.drops;
    if (j.drops > 0 && !any_refusal_possible) {
      out.err = "job Dropped although no executor ever refused work";
      return;
    }
    if (j.drops > 0 && has_pool && sh.stop_begin >= 0 && cf.stop != kStopAfter && j.submit_end >= 0 &&
        j.submit_end < sh.stop_begin && cf.under == kPool && cf.stop != kHardStop) {
      out.err = "pool job accepted before Stop/SoftStop began was Dropped";
      return;
    }
    if (child && cf.under == kPool && cf.stop == kSoftStop && j.drops > 0 && j.submit_end >= 0 &&
        (sh.final_stop_begin < 0 || j.submit_end < sh.final_stop_begin)) {  // (its Submit returned before the closing Stop began)
      // the parent was accepted and is running while it submits the child: the pool has not been idle since the parent
      // was accepted, so a SoftStop cannot have taken effect yet ("stops only when no job is queued or running")
      TJob& parent = *all[static_cast<std::size_t>(j.seq)];
      if (parent.rounds == 1 && parent.calls == 1) {
        out.err = "SoftStop stopped the pool while a job was running: a job submitted from inside a running job was Dropped";
        return;
      }
    }
    if (cf.pool_checks && cf.under == kPool) {
      if (!j.dropped_at_submit_return && j.drops > 0 && cf.stop != kHardStop) {
        out.err = "job accepted by the pool (not dropped when Submit returned) was later Dropped without HardStop";
        return;
      }
    }
    if (cf.under == kStrandRefusing && cf.refuse_from < 0 && j.drops > 0) {
      out.err = "job Dropped although the underlying executor never refused";
      return;
    }
  }
  if (has_pool && cf.stop == kStopAfter && all_finished_before_stop && out.dropped != 0) {
    out.err = "job Dropped although every job had finished before the pool was stopped";
    return;
  }
  if (cf.under == kPool && cf.stop == kStopAfter && out.dropped != 0) {
    out.err = "job dropped although the pool was stopped only after all submissions returned";
    return;
  }
  if (serial && sh.max_overlap > 1) {
    out.err = "strand jobs overlapped";
    return;
  }
  // order: Called jobs whose submission returned before another one's began must run first (strand; pool with 1 worker)
  const bool ordered = serial || (cf.under == kPool && cf.workers == 1) || cf.under == kManual;
  if (ordered) {
    for (auto& a : all) {
      if (a->calls == 0) {
        continue;
      }
      for (auto& b : all) {
        if (b->calls == 0 || a.get() == b.get() || a->grp != b->grp || a->rounds > 1 || b->rounds > 1) {
          continue;  // order is promised among the submissions to one strand; re-submitted nodes ran twice
        }
        const bool program_order = a->submitter == b->submitter && a->submitter >= 0 && a->seq < b->seq;
        const bool hb = a->submit_end >= 0 && b->submit_begin >= 0 && a->submit_end < b->submit_begin;
        if ((program_order || hb) && !(a->exec_at < b->exec_at)) {
          out.err = program_order ? "jobs of one submitter ran out of program order"
                                  : "a job whose Submit returned before another Submit began ran after it";
          return;
        }
      }
    }
  }
  out.nontrivial = sh.submit_during_batch > 0 || sh.stop_overlapped > 0;
}

Config Decode(const Case& c, bool strand_family, bool pool_family) {
  Config cf{};
  if (strand_family) {
    static const int k[] = {kStrandPool, kStrand2Pool, kStrandManual, kStrandInline, kStrandRefusing, kStrandPool};
    cf.under = k[c.H(0) % 6];
  } else if (pool_family) {
    cf.under = kPool;
  } else {
    cf.under = c.H(0) % kUnderN;
  }
  cf.workers = 1 + c.H(1) % 3;
  cf.submitters = 1 + c.H(2) % 3;
  cf.jobs = 1 + c.H(3) % 4;
  cf.stop = c.H(4) % kStopN;
  cf.delay = c.H(5) % 14;
  cf.resub_mask = c.H(6);
  cf.refuse_from = c.H(7) % 8 == 7 ? -1 : c.H(7) % 8;
  cf.split = cf.under == kStrand2Pool && c.H(7) % 2 == 1;
  cf.reuse = c.H(5) / 14 % 2 == 1;
  cf.strand_checks = strand_family;
  cf.pool_checks = pool_family || cf.under == kPool;
  return cf;
}

class ExecFamily : public vf::Family {
 public:
  ExecFamily(const char* name, const char* prop, bool strand, bool pool) : _name{name}, _prop{prop}, _strand{strand}, _pool{pool} {
  }
  const char* Name() const final {
    return _name;
  }
  const char* Property() const final {
    return _prop;
  }
  const char* Rule() const final {
    return "case = executor stack (pool(n) | strand over pool | strand over strand over pool | strand over Manual "
           "drained by a fiber | strand over Inline | strand over a refusing executor | Manual | Inline | stopped "
           "Inline) x 1..3 submitter fibers x 1..4 instrumented jobs each (some re-submit a child from inside Call or Drop; optionally odd submitters feed the inner strand of a 2-strand stack directly, optionally each submitter re-submits its first job node after it finished) x "
           "Stop/SoftStop/HardStop issued after a generated number of yields (or after all submits) x schedule tape; "
           "oracle = every job Called xor Dropped exactly once at quiescence, Drop only if some executor refused, "
           "accepted pool jobs never dropped without HardStop, no Call after Wait, strand jobs never overlap, jobs "
           "ordered by program order and by 'Submit returned before Submit began', no parked fiber; non-trivial = a "
           "Submit happened while a strand batch was running or the stop call overlapped a Submit / running job; "
           "distinct = (program, effective fiber trace)";
  }
  rc::Gen<Case> Gen() const final {
    return rc::gen::exec([]() {
      Case c;
      c.hdr = {vf::Pick(0, 18), vf::Pick(0, 3),  vf::Pick(0, 3),       vf::Pick(0, 4),
               vf::Pick(0, 4),  vf::Pick(0, 14) + (vf::Pick(0, 4) == 0 ? 14 : 0), vf::Pick(0, 1 << 12), vf::Pick(0, 8)};
      if (vf::Pick(0, 3) != 0) {
        c.hdr[6] = 0;  // most cases without re-submission
      }
      c.tape = *vf::GenTape(400);
      return c;
    });
  }
  std::vector<Case> DfsPrograms(int tier) const final {
    std::vector<Case> out;
    for (int under = 0; under < (_strand ? 6 : _pool ? 1 : kUnderN); ++under) {
      for (int stop = 0; stop < kStopN; ++stop) {
        for (int sub = 0; sub < (tier == 0 ? 1 : 2); ++sub) {
          Case c;
          c.hdr = {under, 0, 1 + sub, sub == 0 ? 1 : 0, stop, 2, 0, 1};  // 1 worker, 2-3 submitters, 1-2 jobs
          out.push_back(c);
        }
      }
    }
    return out;
  }
  std::string Describe(const Case& c) const final {
    const Config cf = Decode(c, _strand, _pool);
    char b[300];
    std::snprintf(b, sizeof b, "executor=%s workers=%d submitters=%d jobs_each=%d stop=%s delay=%d resubmit_mask=%#x refuse_from=%d tape_len=%zu",
                  kUnderName[cf.under], cf.workers, cf.submitters, cf.jobs, kStopName[cf.stop], cf.delay,
                  cf.resub_mask, cf.refuse_from, c.tape.size());
    return b;
  }
  Verdict Run(const Case& c, Explorer& ex) final {
    Verdict v;
    vf::TheHost().Run([&] {
      const Config cf = Decode(c, _strand, _pool);
      RunOut out;
      RunCase(ex, cf, out);
      v.inconclusive = ex.over_budget;
      if (!out.done) {
        v.Fail(std::string("deadlock: submitter / worker / Wait never finished [") + kUnderName[cf.under] + ", " +
               kStopName[cf.stop] + "]");
      } else if (out.err != nullptr) {
        v.Fail(std::string(out.err) + " [" + kUnderName[cf.under] + ", " + kStopName[cf.stop] + "]");
      }
      v.nontrivial = out.nontrivial > 0;
      v.hash = vf::Mix64(c.ProgHash(), ex.trace_hash);
      v.tags.push_back(kUnderName[cf.under]);
      if (out.dropped > 0) {
        v.tags.push_back("some-job-dropped");
      }
      if (cf.under <= kStrand2Pool) {
        v.tags.push_back(vf::Intern(std::string("stop:") + kStopName[cf.stop]));
      }
      if (cf.split && cf.submitters >= 2) {
        v.tags.push_back("odd-submitters-feed-inner-strand");
      }
      if (out.reused > 0) {
        v.tags.push_back("job-node-resubmitted-after-finish");
      }
      if (cf.resub_mask != 0) {
        v.tags.push_back("jobs-resubmit-children");
      }
      char b[96];
      std::snprintf(b, sizeof b, "called=%d dropped=%d switches=%u", out.called, out.dropped, ex.switches);
      v.detail = b;
    });
    return v;
  }

 private:
  const char* _name;
  const char* _prop;
  bool _strand, _pool;
};

}  // namespace

int main(int argc, char** argv) {
  ExecFamily strand{"strand", "C07", true, false};
  ExecFamily pool{"pool", "C08", false, true};
  ExecFamily jobs{"execjobs", "C05", false, false};
  vf::Driver d{{&strand, &pool, &jobs}};
  return d.Main(argc, argv);
}
