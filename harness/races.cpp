// C04: no data races - what happened before fulfilment is visible after it. Real OS threads under ThreadSanitizer.
// Generated client programs isolate one synchronising edge provided by the library as the ONLY order between a plain
// write and a plain read. The programs are race-free at harness level by construction: every observer writes only its
// own slot and every fire-and-forget continuation counts down a std::latch the main thread waits on before it reads or
// destroys anything (these std edges only order observer -> main, never producer -> observer).
// Built twice: YACLIB_FAULT=OFF and YACLIB_FAULT=THREAD (injected sleeps widen windows real threads never hit).
#include "common/driver.hpp"

#include <yaclib/algo/wait_group.hpp>
#include <yaclib/async/connect.hpp>
#include <yaclib/async/contract.hpp>
#include <yaclib/async/run.hpp>
#include <yaclib/async/share.hpp>
#include <yaclib/async/shared_contract.hpp>
#include <yaclib/async/wait.hpp>
#include <yaclib/async/wait_for.hpp>
#include <yaclib/async/wait_until.hpp>
#include <yaclib/async/when_all.hpp>
#include <yaclib/async/when_any.hpp>
#include <yaclib/coro/await.hpp>
#include <yaclib/coro/await_on.hpp>
#include <yaclib/coro/future.hpp>
#include <yaclib/coro/mutex.hpp>
#include <yaclib/coro/on.hpp>
#include <yaclib/coro/shared_mutex.hpp>
#include <yaclib/exe/strand.hpp>
#include <yaclib/exe/submit.hpp>
#include <yaclib/fault/config.hpp>
#include <yaclib/runtime/fair_thread_pool.hpp>

#include <atomic>
#include <chrono>
#include <cstdio>
#include <latch>
#include <memory>
#include <string>
#include <thread>
#include <vector>

namespace {

using vf::Case;
using vf::Explorer;
using vf::Verdict;
using namespace std::chrono_literals;

#if YACLIB_FAULT == 1
constexpr const char* kFamily = "races_thread";
#else
constexpr const char* kFamily = "races_off";
#endif

enum Shape {
  kContinuation,
  kGetWait,
  kSharedObservers,
  kLastOwner,
  kStrand,
  kPool,
  kCoMutex,
  kCoSharedMutex,
  kCombinators,
  kWaitGroup,
  kCoAwait,
  kPoolHardStop,
  kShapeN
};
const char* const kShapeName[] = {"promise->continuation", "Get/Wait/WaitFor return", "SharedFuture observers + move-out",
                                  "last-owner destruction", "strand jobs", "pool submit->run->Wait", "coroutine Mutex",
                                  "coroutine SharedMutex", "WhenAll/WhenAny outputs", "WaitGroup/OneShotEvent", "co_await resumption",
                                  "pool HardStop vs workers"};

void Spin(int k) {
  for (volatile int i = 0; i < k * 40; ++i) {
  }
}

// plain (non-atomic) payload: the library's edge is the only thing ordering its write and its reads
struct Box {
  long a = 0, b = 0;
  void Write(long v) {
    a = v;
    b = ~v;
  }
  bool Check(long v) const {
    return a == v && b == ~v;
  }
};
struct Heavy {  // copyable payload with heap part, destructor reads it (last-owner destruction must see everything)
  std::shared_ptr<Box> box;
  std::vector<int> data;
  Heavy() = default;
  explicit Heavy(long v) : box{std::make_shared<Box>()}, data(8, static_cast<int>(v)) {
    box->Write(v);
  }
  long Sum() const {
    long s = 0;
    for (int x : data) {
      s += x;
    }
    return s;
  }
};

struct Err {
  std::atomic<const char*> msg{nullptr};
  void Set(const char* m) {
    const char* e = nullptr;
    msg.compare_exchange_strong(e, m);
  }
};

void Continuation(const Case& c, Err& err) {
  const int variant = c.H(1) % 6, skew_p = c.H(2) % 8, skew_c = c.H(3) % 8;
  auto [f, p] = yaclib::MakeContract<int>();
  Box box;
  std::latch done{1};
  yaclib::FairThreadPool tp{1};
  std::thread producer([&box, skew_p, p = std::move(p)]() mutable {
    Spin(skew_p);
    box.Write(41);
    std::move(p).Set(1);
  });
  Spin(skew_c);
  auto cb = [&](int) {
    if (!box.Check(41)) {
      err.Set("continuation does not see what the producer wrote before Set");
    }
    done.count_down();
  };
  switch (variant) {
    case 0:
      std::move(f).DetachInline(cb);
      break;
    case 1:
      std::move(f).Detach(tp, cb);
      break;
    case 2:
      std::move(f).ThenInline([](int v) { return v + 1; }).DetachInline(cb);
      break;
    case 3:
      std::move(f).Then(tp, [](int v) { return v + 1; }).Detach(cb);
      break;
    case 4: {
      auto [f2, p2] = yaclib::MakeContract<int>();
      yaclib::Connect(std::move(f), std::move(p2));
      std::move(f2).DetachInline(cb);
      break;
    }
    default:
      while (!f.Ready()) {
        std::this_thread::yield();
      }
      if (!box.Check(41)) {
        err.Set("Ready()==true but the producer's writes are not visible");
      }
      done.count_down();
  }
  done.wait();
  producer.join();
  tp.Stop();
  tp.Wait();
}

void GetWait(const Case& c, Err& err) {
  const int variant = c.H(1) % 5, skew_p = c.H(2) % 8, skew_c = c.H(3) % 8;
  auto [f, p] = yaclib::MakeContract<Heavy>();
  Box box;
  std::thread producer([&box, skew_p, p = std::move(p)]() mutable {
    Spin(skew_p);
    box.Write(7);
    std::move(p).Set(Heavy{5});
  });
  Spin(skew_c);
  switch (variant) {
    case 0:
      break;
    case 1:
      yaclib::Wait(f);
      break;
    case 2:
      while (!yaclib::WaitFor(50us, f)) {
      }
      break;
    case 3:
      (void)yaclib::WaitFor(1us, f);
      yaclib::Wait(f);
      break;
    default:
      while (!yaclib::WaitUntil(std::chrono::steady_clock::now() + 30us, f)) {
      }
  }
  auto r = std::move(f).Get();
  if (!box.Check(7)) {
    err.Set("Get/Wait returned but the producer's earlier writes are not visible");
  }
  if (!r || std::as_const(r).Value().Sum() != 40 || !std::as_const(r).Value().box->Check(5)) {
    err.Set("Result read after Get is not what was Set");
  }
  producer.join();
}

void SharedObservers(const Case& c, Err& err) {
  const int observers = 2 + c.H(1) % 3, variant = c.H(4) % 4, skew_p = c.H(2) % 8;
  auto [sf, sp] = yaclib::MakeSharedContract<Heavy>();
  Box box;
  std::latch done{observers};
  std::vector<std::thread> ts;
  for (int i = 0; i < observers; ++i) {
    ts.emplace_back([&, i, copy = sf, skew = (c.H(3) >> i) % 8]() mutable {
      Spin(skew);
      auto check = [&](const yaclib::Result<Heavy>& r) {
        if (!box.Check(9) || !r || r.Value().Sum() != 24 || !r.Value().box->Check(3)) {
          err.Set("SharedFuture observer does not see the value / the producer's earlier writes");
        }
      };
      switch ((variant + i) % 5) {
        case 0:
          copy.SubscribeInline([&, check](const yaclib::Result<Heavy>& r) {
            check(r);
            done.count_down();
          });
          break;
        case 1:
          check(copy.Get());
          done.count_down();
          break;
        case 2: {
          auto r = std::move(copy).Get();  // may move out if it is the last owner
          check(r);
          done.count_down();
          break;
        }
        case 3: {
          auto f = yaclib::Share(copy);
          { auto dropped = std::move(copy); }  // the copy dies on this thread, the value travels through Connect
          auto r = std::move(f).Get();
          check(r);
          done.count_down();
          break;
        }
        default:
          copy.ThenInline([&, check](const yaclib::Result<Heavy>& r) {
            check(r);
            done.count_down();
            return 1;
          }).Detach();
      }
    });
  }
  { auto dropped = std::move(sf); }
  std::thread producer([&box, skew_p, sp = std::move(sp)]() mutable {
    Spin(skew_p);
    box.Write(9);
    std::move(sp).Set(Heavy{3});
  });
  done.wait();
  for (auto& t : ts) {
    t.join();
  }
  producer.join();
}

void LastOwner(const Case& c, Err& err) {
  // copies of one SharedFuture are read and dropped on several threads; whoever drops last destroys the payload
  const int holders = 2 + c.H(1) % 3;
  auto [sf, sp] = yaclib::MakeSharedContract<Heavy>();
  std::move(sp).Set(Heavy{11});
  std::vector<std::thread> ts;
  for (int i = 0; i < holders; ++i) {
    ts.emplace_back([&err, copy = sf, skew = (c.H(2) >> i) % 8, mv = ((c.H(3) >> i) & 1) != 0]() mutable {
      Spin(skew);
      if (mv) {
        auto r = std::move(copy).Get();
        if (!r || std::as_const(r).Value().Sum() != 88) {
          err.Set("moved-out / copied value is wrong");
        }
      } else {
        const auto& r = copy.Get();
        if (!r || r.Value().Sum() != 88 || !r.Value().box->Check(11)) {
          err.Set("holder read a wrong value");
        }
        { auto dropped = std::move(copy); }
      }
    });
  }
  { auto dropped = std::move(sf); }
  for (auto& t : ts) {
    t.join();
  }
}

void StrandJobs(const Case& c, Err& err) {
  const int submitters = 2 + c.H(1) % 3, jobs = 1 + c.H(2) % 6, workers = 1 + c.H(3) % 3;
  yaclib::FairThreadPool tp{static_cast<std::uint64_t>(workers)};
  auto strand = (c.H(4) & 1) != 0 ? yaclib::MakeStrand(yaclib::MakeStrand(&tp)) : yaclib::MakeStrand(&tp);
  long counter = 0;  // plain: consecutive strand jobs must be ordered by happens-before
  std::latch done{submitters * jobs};
  std::vector<std::thread> ts;
  for (int s = 0; s < submitters; ++s) {
    ts.emplace_back([&, skew = (c.H(5) >> s) % 8] {
      for (int j = 0; j < jobs; ++j) {
        Spin(skew);
        yaclib::Submit(*strand, [&] {
          ++counter;
          done.count_down();
        });
      }
    });
  }
  done.wait();
  for (auto& t : ts) {
    t.join();
  }
  tp.Stop();
  tp.Wait();
  if (counter != static_cast<long>(submitters) * jobs) {
    err.Set("strand jobs lost an increment of a plain counter");
  }
}

void Pool(const Case& c, Err& err) {
  const int workers = 1 + c.H(1) % 3, jobs = 1 + c.H(2) % 8, stop_kind = c.H(3) % 2;
  yaclib::FairThreadPool tp{static_cast<std::uint64_t>(workers)};
  std::vector<Box> in(static_cast<std::size_t>(jobs)), out(static_cast<std::size_t>(jobs));
  for (int j = 0; j < jobs; ++j) {
    in[static_cast<std::size_t>(j)].Write(j);  // submit -> run edge
    yaclib::Submit(tp, [&, j] {
      if (!in[static_cast<std::size_t>(j)].Check(j)) {
        err.Set("pool job does not see what was written before Submit");
      }
      out[static_cast<std::size_t>(j)].Write(100 + j);  // run -> Wait edge
    });
  }
  if (stop_kind == 0) {
    tp.Stop();
  } else {
    tp.SoftStop();
  }
  tp.Wait();
  for (int j = 0; j < jobs; ++j) {
    if (!out[static_cast<std::size_t>(j)].Check(100 + j)) {
      err.Set("after Wait the writes of a finished job are not visible");
    }
  }
}

void PoolHardStop(const Case& c, Err& err) {
  const int workers = 1 + c.H(1) % 4, jobs = 8 + c.H(2) % 40, skew = c.H(3) % 16;
  yaclib::FairThreadPool tp{static_cast<std::uint64_t>(workers)};
  struct J final : yaclib::Job {
    std::atomic<int> calls{0}, drops{0};
    void Call() noexcept final {
      calls.fetch_add(1, std::memory_order_relaxed);
    }
    void Drop() noexcept final {
      drops.fetch_add(1, std::memory_order_relaxed);
    }
  };
  std::vector<J> js(static_cast<std::size_t>(jobs));
  for (auto& j : js) {
    tp.Submit(j);
  }
  Spin(skew);
  tp.HardStop();
  tp.Wait();
  for (auto& j : js) {
    if (j.calls.load() + j.drops.load() != 1) {
      err.Set("a pool job was not finished exactly once by Call xor Drop under HardStop");
    }
  }
}

template <bool B, bool F>
yaclib::Future<> MutexWorker(yaclib::IExecutor& e, yaclib::Mutex<B, F>& m, long& counter, int rounds, int form) {
  co_await On(e);
  for (int i = 0; i < rounds; ++i) {
    if ((form + i) % 3 == 0) {
      auto g = co_await m.Guard();
      ++counter;
    } else if ((form + i) % 3 == 1) {
      co_await m.Lock();
      ++counter;
      co_await m.Unlock();
    } else {
      co_await m.Lock();
      ++counter;
      m.UnlockHere();
    }
  }
  co_return{};
}

template <bool B, bool F>
void CoMutexImpl(const Case& c, Err& err) {
  const int k = 2 + c.H(1) % 4, rounds = 1 + c.H(2) % 6, workers = 2 + c.H(3) % 3;
  yaclib::FairThreadPool tp{static_cast<std::uint64_t>(workers)};
  long counter = 0;  // plain: what one critical section wrote must be visible in the next
  {
    yaclib::Mutex<B, F> m;
    std::vector<yaclib::Future<>> fs;
    for (int i = 0; i < k; ++i) {
      fs.push_back(MutexWorker<B, F>(tp, m, counter, rounds, c.H(4) + i));
    }
    yaclib::Wait(fs.begin(), fs.end());
    if (counter != static_cast<long>(k) * rounds) {
      err.Set("critical sections of the coroutine mutex lost an increment of a plain counter");
    }
  }
  tp.Stop();
  tp.Wait();
}
void CoMutex(const Case& c, Err& err) {
  switch (c.H(5) % 4) {
    case 0:
      return CoMutexImpl<false, false>(c, err);
    case 1:
      return CoMutexImpl<true, false>(c, err);
    case 2:
      return CoMutexImpl<false, true>(c, err);
    default:
      return CoMutexImpl<true, true>(c, err);
  }
}

template <bool F, bool RF>
yaclib::Future<> RWWorker(yaclib::IExecutor& e, yaclib::SharedMutex<F, RF>& m, long& value, long& sink, bool writer, int rounds) {
  co_await On(e);
  for (int i = 0; i < rounds; ++i) {
    if (writer) {
      auto g = co_await m.Guard();
      ++value;
    } else {
      auto g = co_await m.GuardShared();
      sink = value;  // plain read; each reader has its own sink
    }
  }
  co_return{};
}
template <bool F, bool RF>
void CoSharedMutexImpl(const Case& c, Err& err) {
  const int k = 2 + c.H(1) % 4, rounds = 1 + c.H(2) % 6, workers = 2 + c.H(3) % 3;
  yaclib::FairThreadPool tp{static_cast<std::uint64_t>(workers)};
  long value = 0;
  std::vector<long> sinks(static_cast<std::size_t>(k), 0);
  int writers = 0;
  {
    yaclib::SharedMutex<F, RF> m;
    std::vector<yaclib::Future<>> fs;
    for (int i = 0; i < k; ++i) {
      const bool writer = i == 0 || ((c.H(4) >> i) & 1) != 0;
      writers += writer;
      fs.push_back(RWWorker<F, RF>(tp, m, value, sinks[static_cast<std::size_t>(i)], writer, rounds));
    }
    yaclib::Wait(fs.begin(), fs.end());
    if (value != static_cast<long>(writers) * rounds) {
      err.Set("exclusive sections of the coroutine shared mutex lost an increment of a plain counter");
    }
  }
  tp.Stop();
  tp.Wait();
}
void CoSharedMutex(const Case& c, Err& err) {
  switch (c.H(5) % 4) {
    case 0:
      return CoSharedMutexImpl<false, false>(c, err);
    case 1:
      return CoSharedMutexImpl<true, false>(c, err);
    case 2:
      return CoSharedMutexImpl<false, true>(c, err);
    default:
      return CoSharedMutexImpl<true, true>(c, err);
  }
}

void Combinators(const Case& c, Err& err) {
  const int n = 2 + c.H(1) % 3, variant = c.H(2) % 4;
  std::vector<yaclib::Future<int>> fs;
  std::vector<yaclib::Promise<int>> ps;
  std::vector<Box> boxes(static_cast<std::size_t>(n));
  for (int i = 0; i < n; ++i) {
    auto [f, p] = yaclib::MakeContract<int>();
    fs.push_back(std::move(f));
    ps.push_back(std::move(p));
  }
  std::vector<std::thread> ts;
  for (int i = 0; i < n; ++i) {
    ts.emplace_back([&boxes, i, skew = (c.H(3) >> (2 * i)) % 8, fail = variant == 3 && i == 1,
                     p = std::move(ps[static_cast<std::size_t>(i)])]() mutable {
      Spin(skew);
      boxes[static_cast<std::size_t>(i)].Write(i + 1);
      if (fail) {
        std::move(p).Set(yaclib::StopTag{});
      } else {
        std::move(p).Set(i);
      }
    });
  }
  std::latch done{1};
  if (variant == 0 || variant == 3) {
    yaclib::WhenAll(fs.begin(), fs.size()).DetachInline([&](yaclib::Result<std::vector<int>>&& r) {
      if (r) {
        for (int i = 0; i < n; ++i) {
          if (!boxes[static_cast<std::size_t>(i)].Check(i + 1)) {
            err.Set("WhenAll output does not see what an input's producer wrote before Set");
          }
        }
      } else if (!boxes[1].Check(2)) {
        err.Set("WhenAll failure does not see what the failing producer wrote");
      }
      done.count_down();
    });
  } else if (variant == 1) {
    yaclib::WhenAll<yaclib::FailPolicy::None>(fs.begin(), fs.size())
      .DetachInline([&](yaclib::Result<std::vector<yaclib::Result<int>>>&&) {
        for (int i = 0; i < n; ++i) {
          if (!boxes[static_cast<std::size_t>(i)].Check(i + 1)) {
            err.Set("WhenAll<None> output does not see what an input's producer wrote before Set");
          }
        }
        done.count_down();
      });
  } else {
    yaclib::WhenAny(fs.begin(), fs.size()).DetachInline([&](yaclib::Result<int>&& r) {
      if (r) {
        const int w = std::as_const(r).Value();
        if (w < 0 || w >= n || !boxes[static_cast<std::size_t>(w)].Check(w + 1)) {
          err.Set("WhenAny output does not see what the winner's producer wrote before Set");
        }
      }
      done.count_down();
    });
  }
  done.wait();
  for (auto& t : ts) {
    t.join();
  }
}

void WaitGroupShape(const Case& c, Err& err) {
  const int workers = 1 + c.H(1) % 4, variant = c.H(2) % 4;
  std::vector<Box> boxes(static_cast<std::size_t>(workers));
  if (variant < 3) {
    yaclib::WaitGroup<> wg{static_cast<std::size_t>(workers)};
    std::vector<std::thread> ts;
    for (int i = 0; i < workers; ++i) {
      ts.emplace_back([&, i, skew = (c.H(3) >> (2 * i)) % 8] {
        Spin(skew);
        boxes[static_cast<std::size_t>(i)].Write(i + 20);
        wg.Done();
      });
    }
    if (variant == 0) {
      wg.Wait();
    } else if (variant == 1) {
      while (!wg.WaitFor(40us)) {
      }
    } else {
      while (!wg.WaitUntil(std::chrono::steady_clock::now() + 40us)) {
      }
    }
    for (int i = 0; i < workers; ++i) {
      if (!boxes[static_cast<std::size_t>(i)].Check(i + 20)) {
        err.Set("after WaitGroup::Wait the writes made before Done are not visible");
      }
    }
    for (auto& t : ts) {
      t.join();
    }
  } else {
    yaclib::OneShotEvent ev;
    std::thread setter([&, skew = c.H(3) % 8] {
      Spin(skew);
      boxes[0].Write(20);
      ev.Set();
    });
    ev.Wait();
    if (!boxes[0].Check(20)) {
      err.Set("after OneShotEvent::Wait the writes made before Set are not visible");
    }
    setter.join();
  }
}

yaclib::Future<int> Awaiter(yaclib::Future<int> f, yaclib::Future<int>& g, Box& box, Err& err, int form, yaclib::IExecutor& e) {
  if (form == 0) {
    (void)co_await std::move(f);
  } else if (form == 1) {
    co_await Await(g);
  } else {
    co_await AwaitOn(e, g);
  }
  if (!box.Check(33)) {
    err.Set("coroutine resumed from co_await does not see what the producer wrote before Set");
  }
  co_return 1;
}

void CoAwaitShape(const Case& c, Err& err) {
  const int form = c.H(1) % 3, skew_p = c.H(2) % 8;
  yaclib::FairThreadPool tp{1};
  auto [f, p] = yaclib::MakeContract<int>();
  auto [g, pg] = yaclib::MakeContract<int>();
  Box box;
  std::thread producer([&box, skew_p, p = std::move(p), pg = std::move(pg)]() mutable {
    Spin(skew_p);
    box.Write(33);
    std::move(p).Set(1);
    std::move(pg).Set(2);
  });
  auto co = Awaiter(std::move(f), g, box, err, form, tp);
  (void)std::move(co).Get();
  producer.join();
  tp.Stop();
  tp.Wait();
}

class Races final : public vf::Family {
 public:
  const char* Name() const final {
    return kFamily;
  }
  const char* Property() const final {
    return "C04";
  }
  const char* Rule() const final {
    return "case = one of 12 client program shapes (promise->continuation in 6 attach forms, Get/Wait/WaitFor/WaitUntil "
           "return, SharedFuture observers incl. copies dropped and moved out on other threads, last-owner destruction, "
           "consecutive strand jobs of several submitters, pool submit->run and run->Wait, HardStop vs workers, coroutine "
           "Mutex / SharedMutex critical sections for all options, WhenAll/WhenAny outputs, WaitGroup/OneShotEvent "
           "Done->Wait, co_await resumption) x thread counts x start skews, each executed 20 times on real OS threads "
           "under ThreadSanitizer; oracle = zero TSan reports (happens-before analysis) and correct plain payloads; "
           "non-trivial = the plain payload was written and read by different OS threads (true for every shape by "
           "construction); distinct = parameter tuple";
  }
  rc::Gen<Case> Gen() const final {
    return rc::gen::exec([]() {
      Case c;
      c.hdr = {vf::Pick(0, kShapeN), vf::Pick(0, 64), vf::Pick(0, 64), vf::Pick(0, 4096), vf::Pick(0, 64), vf::Pick(0, 4096),
               vf::Pick(1, 30), vf::Pick(1, 200)};
      return c;
    });
  }
  std::string Describe(const Case& c) const final {
    char b[200];
    std::snprintf(b, sizeof b, "shape=%s params=[%d,%d,%d,%d,%d] fault_freq=%d sleep_ns=%d reps=20", kShapeName[c.H(0) % kShapeN],
                  c.H(1), c.H(2), c.H(3), c.H(4), c.H(5), 1 + c.H(6) % 30, 1 + c.H(7) % 200);
    return b;
  }
  Verdict Run(const Case& c, Explorer&) final {
    Verdict v;
    Err err;
    yaclib::SetFaultFrequency(static_cast<std::uint32_t>(1 + c.H(6) % 30));
    yaclib::SetFaultSleepTime(static_cast<std::uint32_t>(1 + c.H(7) % 200));
    for (int rep = 0; rep < 20 && err.msg.load() == nullptr; ++rep) {
      switch (c.H(0) % kShapeN) {
        case kContinuation:
          Continuation(c, err);
          break;
        case kGetWait:
          GetWait(c, err);
          break;
        case kSharedObservers:
          SharedObservers(c, err);
          break;
        case kLastOwner:
          LastOwner(c, err);
          break;
        case kStrand:
          StrandJobs(c, err);
          break;
        case kPool:
          Pool(c, err);
          break;
        case kCoMutex:
          CoMutex(c, err);
          break;
        case kCoSharedMutex:
          CoSharedMutex(c, err);
          break;
        case kCombinators:
          Combinators(c, err);
          break;
        case kWaitGroup:
          WaitGroupShape(c, err);
          break;
        case kCoAwait:
          CoAwaitShape(c, err);
          break;
        default:
          PoolHardStop(c, err);
      }
    }
    if (const char* m = err.msg.load()) {
      v.Fail(m);
    }
    v.nontrivial = true;
    v.hash = c.ProgHash();
    v.tags.push_back(kShapeName[c.H(0) % kShapeN]);
    return v;
  }
};

}  // namespace

int main(int argc, char** argv) {
  Races fam;
  vf::Driver d{{&fam}};
  return d.Main(argc, argv);
}
