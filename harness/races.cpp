// C04: no data races - what happened before fulfilment is visible after it. Real OS threads under ThreadSanitizer.
// Generated client programs isolate one synchronising edge provided by the library as the ONLY order between a plain
// write and a plain read. The programs are race-free at harness level by construction: every observer writes only its
// own slot and every fire-and-forget continuation counts down a std::latch the main thread waits on before it reads or
// destroys anything (these std edges only order observer -> main, never producer -> observer).
// Built twice: YACLIB_FAULT=OFF and YACLIB_FAULT=THREAD (injected sleeps widen windows real threads never hit).
#include "common/driver.hpp"

#include <yaclib/algo/wait_group.hpp>
#include <yaclib/async/connect.hpp>
#include <yaclib/async/contract.hpp>
#include <yaclib/async/run.hpp>
#include <yaclib/async/share.hpp>
#include <yaclib/async/shared_contract.hpp>
#include <yaclib/async/wait.hpp>
#include <yaclib/async/wait_for.hpp>
#include <yaclib/async/wait_until.hpp>
#include <yaclib/async/when_all.hpp>
#include <yaclib/async/when_any.hpp>
#include <yaclib/coro/await.hpp>
#include <yaclib/coro/await_on.hpp>
#include <yaclib/coro/await_sticky.hpp>
#include <yaclib/coro/future.hpp>
#include <yaclib/coro/mutex.hpp>
#include <yaclib/coro/on.hpp>
#include <yaclib/coro/shared_future.hpp>
#include <yaclib/coro/shared_mutex.hpp>
#include <yaclib/exe/strand.hpp>
#include <yaclib/exe/submit.hpp>
#include <yaclib/fault/config.hpp>
#include <yaclib/runtime/fair_thread_pool.hpp>

#include <atomic>
#include <chrono>
#include <cstdio>
#include <latch>
#include <memory>
#include <string>
#include <thread>
#include <vector>

namespace {

using vf::Case;
using vf::Explorer;
using vf::Verdict;
using namespace std::chrono_literals;

#if YACLIB_FAULT == 1
constexpr const char* kFamily = "races_thread";
#else
constexpr const char* kFamily = "races_off";
#endif

enum Shape {
  kContinuation,
  kGetWait,
  kSharedObservers,
  kLastOwner,
  kStrand,
  kPool,
  kCoMutex,
  kCoSharedMutex,
  kCombinators,
  kWaitGroup,
  kCoAwait,
  kPoolHardStop,
  kShapeN
};
const char* const kShapeName[] = {"promise->continuation", "Get/Wait/WaitFor return", "SharedFuture observers + move-out",
                                  "last-owner destruction", "strand jobs", "pool submit->run->Wait", "coroutine Mutex",
                                  "coroutine SharedMutex", "WhenAll/WhenAny outputs", "WaitGroup/OneShotEvent", "co_await resumption",
                                  "pool HardStop vs workers"};

void Spin(int k) {
  for (volatile int i = 0; i < k * 40; ++i) {
  }
}

// plain (non-atomic) payload: the library's edge is the only thing ordering its write and its reads
struct Box {
  long a = 0, b = 0;
  void Write(long v) {
    a = v;
    b = ~v;
  }
  bool Check(long v) const {
    return a == v && b == ~v;
  }
};
struct Heavy {  // copyable payload with heap part, destructor reads it (last-owner destruction must see everything)
  std::shared_ptr<Box> box;
  std::vector<int> data;
  Heavy() = default;
  explicit Heavy(long v) : box{std::make_shared<Box>()}, data(8, static_cast<int>(v)) {
    box->Write(v);
  }
  long Sum() const {
    long s = 0;
    for (int x : data) {
      s += x;
    }
    return s;
  }
};

struct Err {
  std::atomic<const char*> msg{nullptr};
  void Set(const char* m) {
    const char* e = nullptr;
    msg.compare_exchange_strong(e, m);
  }
};

void Continuation(const Case& c, Err& err) {
  const int variant = c.H(1) % 6, skew_p = c.H(2) % 8, skew_c = c.H(3) % 8;
  auto [f, p] = yaclib::MakeContract<int>();
  Box box;
  std::latch done{1};
  yaclib::FairThreadPool tp{1};
  std::thread producer([&box, skew_p, p = std::move(p)]() mutable {
    Spin(skew_p);
    box.Write(41);
    std::move(p).Set(1);
  });
  Spin(skew_c);
  auto cb = [&](int) {
    if (!box.Check(41)) {
      err.Set("continuation does not see what the producer wrote before Set");
    }
    done.count_down();
  };
  switch (variant) {
    case 0:
      std::move(f).DetachInline(cb);
      break;
    case 1:
      std::move(f).Detach(tp, cb);
      break;
    case 2:
      std::move(f).ThenInline([](int v) { return v + 1; }).DetachInline(cb);
      break;
    case 3:
      std::move(f).Then(tp, [](int v) { return v + 1; }).Detach(cb);
      break;
    case 4: {
      auto [f2, p2] = yaclib::MakeContract<int>();
      yaclib::Connect(std::move(f), std::move(p2));
      std::move(f2).DetachInline(cb);
      break;
    }
    default:
      while (!f.Ready()) {
        std::this_thread::yield();
      }
      if (!box.Check(41)) {
        err.Set("Ready()==true but the producer's writes are not visible");
      }
      done.count_down();
  }
  done.wait();
  producer.join();
  tp.Stop();
  tp.Wait();
}

void GetWait(const Case& c, Err& err) {
  const int variant = c.H(1) % 5, skew_p = c.H(2) % 8, skew_c = c.H(3) % 8;
  auto [f, p] = yaclib::MakeContract<Heavy>();
  Box box;
  std::thread producer([&box, skew_p, p = std::move(p)]() mutable {
    Spin(skew_p);
    box.Write(7);
    std::move(p).Set(Heavy{5});
  });
  Spin(skew_c);
  switch (variant) {
    case 0:
      break;
    case 1:
      yaclib::Wait(f);
      break;
    case 2:
      while (!yaclib::WaitFor(50us, f)) {
      }
      break;
    case 3:
      (void)yaclib::WaitFor(1us, f);
      yaclib::Wait(f);
      break;
    default:
      while (!yaclib::WaitUntil(std::chrono::steady_clock::now() + 30us, f)) {
      }
  }
  auto r = std::move(f).Get();
  if (!box.Check(7)) {
    err.Set("Get/Wait returned but the producer's earlier writes are not visible");
  }
  if (!r || std::as_const(r).Value().Sum() != 40 || !std::as_const(r).Value().box->Check(5)) {
    err.Set("Result read after Get is not what was Set");
  }
  producer.join();
}

// a SharedFuture whose shared state is a coroutine promise (its own reference counter and move-out decision)
yaclib::SharedFuture<Heavy> SharedCo(yaclib::Future<int> gate) {
  (void)co_await std::move(gate);
  co_return Heavy{3};
}

void SharedObservers(const Case& c, Err& err) {
  const int observers = 2 + c.H(1) % 3, variant = c.H(4) % 4, skew_p = c.H(2) % 8;
  const bool from_coroutine = c.H(5) % 2 == 1;
  auto [sf0, sp] = yaclib::MakeSharedContract<Heavy>();
  auto [gate, gate_p] = yaclib::MakeContract<int>();
  auto sf = from_coroutine ? SharedCo(std::move(gate)) : std::move(sf0);
  Box box;
  std::latch done{observers};
  std::vector<std::thread> ts;
  for (int i = 0; i < observers; ++i) {
    ts.emplace_back([&, i, copy = sf, skew = (c.H(3) >> i) % 8]() mutable {
      Spin(skew);
      auto check = [&](const yaclib::Result<Heavy>& r) {
        if (!box.Check(9) || !r || r.Value().Sum() != 24 || !r.Value().box->Check(3)) {
          err.Set("SharedFuture observer does not see the value / the producer's earlier writes");
        }
      };
      switch ((variant + i) % 5) {
        case 0:
          copy.SubscribeInline([&, check](const yaclib::Result<Heavy>& r) {
            check(r);
            done.count_down();
          });
          break;
        case 1:
          check(copy.Get());
          done.count_down();
          break;
        case 2: {
          auto r = std::move(copy).Get();  // may move out if it is the last owner
          check(r);
          done.count_down();
          break;
        }
        case 3: {
          auto f = yaclib::Share(copy);
          { auto dropped = std::move(copy); }  // the copy dies on this thread, the value travels through Connect
          auto r = std::move(f).Get();
          check(r);
          done.count_down();
          break;
        }
        default:
          copy.ThenInline([&, check](const yaclib::Result<Heavy>& r) {
            check(r);
            done.count_down();
            return 1;
          }).Detach();
      }
    });
  }
  { auto dropped = std::move(sf); }
  std::thread producer([&box, skew_p, from_coroutine, sp = std::move(sp), gate_p = std::move(gate_p)]() mutable {
    Spin(skew_p);
    box.Write(9);
    if (from_coroutine) {
      std::move(gate_p).Set(1);  // the coroutine resumes here and co_returns the value
    } else {
      std::move(sp).Set(Heavy{3});
    }
  });
  done.wait();
  for (auto& t : ts) {
    t.join();
  }
  producer.join();
}

void LastOwner(const Case& c, Err& err) {
  // copies of one SharedFuture are read and dropped on several threads; whoever drops last destroys the payload
  const int holders = 2 + c.H(1) % 3;
  auto [sf, sp] = yaclib::MakeSharedContract<Heavy>();
  std::move(sp).Set(Heavy{11});
  std::vector<std::thread> ts;
  for (int i = 0; i < holders; ++i) {
    ts.emplace_back([&err, copy = sf, skew = (c.H(2) >> i) % 8, mv = ((c.H(3) >> i) & 1) != 0]() mutable {
      Spin(skew);
      if (mv) {
        auto r = std::move(copy).Get();
        if (!r || std::as_const(r).Value().Sum() != 88) {
          err.Set("moved-out / copied value is wrong");
        }
      } else {
        const auto& r = copy.Get();
        if (!r || r.Value().Sum() != 88 || !r.Value().box->Check(11)) {
          err.Set("holder read a wrong value");
        }
        { auto dropped = std::move(copy); }
      }
    });
  }
  { auto dropped = std::move(sf); }
  for (auto& t : ts) {
    t.join();
  }
}

// strand jobs while the pool underneath is being stopped: what a submitter wrote before Submit must be visible in Call
// and in Drop (Strand::Drop walks nodes pushed by other threads), called jobs stay ordered among themselves
struct StoppableJob final : yaclib::Job {
  Box in;
  int id = 0;
  long* counter = nullptr;
  std::atomic<int>* calls = nullptr;
  std::latch* done = nullptr;
  Err* err = nullptr;
  void Call() noexcept final {
    if (!in.Check(id)) {
      err->Set("strand job does not see what its submitter wrote before Submit");
    }
    ++*counter;
    calls->fetch_add(1, std::memory_order_relaxed);
    done->count_down();
  }
  void Drop() noexcept final {
    if (!in.Check(id)) {
      err->Set("dropped strand job does not see what its submitter wrote before Submit");
    }
    done->count_down();
  }
};
void StrandJobsStopped(const Case& c, Err& err) {
  const int submitters = 2 + c.H(1) % 3, jobs = 1 + c.H(2) % 6, workers = 1 + c.H(3) % 3;
  yaclib::FairThreadPool tp{static_cast<std::uint64_t>(workers)};
  auto strand = (c.H(4) & 1) != 0 ? yaclib::MakeStrand(yaclib::MakeStrand(&tp)) : yaclib::MakeStrand(&tp);
  long counter = 0;
  std::atomic<int> calls{0};
  std::latch done{submitters * jobs};
  std::vector<StoppableJob> all(static_cast<std::size_t>(submitters * jobs));
  std::vector<std::thread> ts;
  for (int s = 0; s < submitters; ++s) {
    ts.emplace_back([&, s, skew = (c.H(5) >> s) % 8] {
      for (int j = 0; j < jobs; ++j) {
        Spin(skew);
        auto& job = all[static_cast<std::size_t>(s * jobs + j)];
        job.id = s * jobs + j;
        job.counter = &counter;
        job.calls = &calls;
        job.done = &done;
        job.err = &err;
        job.in.Write(job.id);
        strand->Submit(job);
      }
    });
  }
  std::thread stopper([&, skew = (c.H(5) >> 6) % 64, hard = (c.H(4) >> 2) % 2 == 1] {
    Spin(skew * 4);
    if (hard) {
      tp.HardStop();
    } else {
      tp.Stop();
    }
  });
  done.wait();
  for (auto& t : ts) {
    t.join();
  }
  stopper.join();
  tp.Wait();
  if (counter != calls.load()) {
    err.Set("called strand jobs lost an increment of a plain counter while the pool was being stopped");
  }
}

void StrandJobs(const Case& c, Err& err) {
  if ((c.H(4) >> 1) % 2 == 1) {
    return StrandJobsStopped(c, err);
  }
  const int submitters = 2 + c.H(1) % 3, jobs = 1 + c.H(2) % 6, workers = 1 + c.H(3) % 3;
  yaclib::FairThreadPool tp{static_cast<std::uint64_t>(workers)};
  auto strand = (c.H(4) & 1) != 0 ? yaclib::MakeStrand(yaclib::MakeStrand(&tp)) : yaclib::MakeStrand(&tp);
  long counter = 0;  // plain: consecutive strand jobs must be ordered by happens-before
  std::latch done{submitters * jobs};
  std::vector<std::thread> ts;
  for (int s = 0; s < submitters; ++s) {
    ts.emplace_back([&, skew = (c.H(5) >> s) % 8] {
      for (int j = 0; j < jobs; ++j) {
        Spin(skew);
        yaclib::Submit(*strand, [&] {
          ++counter;
          done.count_down();
        });
      }
    });
  }
  done.wait();
  for (auto& t : ts) {
    t.join();
  }
  tp.Stop();
  tp.Wait();
  if (counter != static_cast<long>(submitters) * jobs) {
    err.Set("strand jobs lost an increment of a plain counter");
  }
}

void Pool(const Case& c, Err& err) {
  const int workers = 1 + c.H(1) % 3, jobs = 1 + c.H(2) % 8, stop_kind = c.H(3) % 2;
  yaclib::FairThreadPool tp{static_cast<std::uint64_t>(workers)};
  std::vector<Box> in(static_cast<std::size_t>(jobs)), out(static_cast<std::size_t>(jobs));
  for (int j = 0; j < jobs; ++j) {
    in[static_cast<std::size_t>(j)].Write(j);  // submit -> run edge
    yaclib::Submit(tp, [&, j] {
      if (!in[static_cast<std::size_t>(j)].Check(j)) {
        err.Set("pool job does not see what was written before Submit");
      }
      out[static_cast<std::size_t>(j)].Write(100 + j);  // run -> Wait edge
    });
  }
  if (stop_kind == 0) {
    tp.Stop();
  } else {
    tp.SoftStop();
  }
  tp.Wait();
  for (int j = 0; j < jobs; ++j) {
    if (!out[static_cast<std::size_t>(j)].Check(100 + j)) {
      err.Set("after Wait the writes of a finished job are not visible");
    }
  }
}

void PoolHardStop(const Case& c, Err& err) {
  const int workers = 1 + c.H(1) % 4, jobs = 8 + c.H(2) % 40, skew = c.H(3) % 16;
  yaclib::FairThreadPool tp{static_cast<std::uint64_t>(workers)};
  struct J final : yaclib::Job {
    std::atomic<int> calls{0}, drops{0};
    void Call() noexcept final {
      calls.fetch_add(1, std::memory_order_relaxed);
    }
    void Drop() noexcept final {
      drops.fetch_add(1, std::memory_order_relaxed);
    }
  };
  std::vector<J> js(static_cast<std::size_t>(jobs));
  for (auto& j : js) {
    tp.Submit(j);
  }
  Spin(skew);
  tp.HardStop();
  tp.Wait();
  for (auto& j : js) {
    if (j.calls.load() + j.drops.load() != 1) {
      err.Set("a pool job was not finished exactly once by Call xor Drop under HardStop");
    }
  }
}

template <bool B, bool F>
yaclib::Future<> MutexWorker(yaclib::IExecutor& e, yaclib::Mutex<B, F>& m, long& counter, int rounds, int form) {
  co_await On(e);
  for (int i = 0; i < rounds; ++i) {
    switch ((form + i) % 6) {
      case 0: {
        auto g = co_await m.Guard();
        ++counter;
        break;
      }
      case 1:
        co_await m.Lock();
        ++counter;
        co_await m.Unlock();
        break;
      case 2:
        co_await m.Lock();
        ++counter;
        m.UnlockHere();
        break;
      case 3:  // Try forms: the acquiring CAS of a successful try is the only edge from the previous section
        if (!m.TryLock()) {
          co_await m.Lock();
        }
        ++counter;
        m.UnlockHere();
        break;
      case 4: {
        auto g = m.TryGuard();
        if (!g) {
          g = co_await m.Guard();
        }
        ++counter;
        break;
      }
      default: {
        auto g = co_await m.GuardSticky();
        ++counter;
        co_await g.Unlock();
      }
    }
  }
  co_return{};
}

template <bool B, bool F>
void CoMutexImpl(const Case& c, Err& err) {
  const int k = 2 + c.H(1) % 4, rounds = 1 + c.H(2) % 6, workers = 2 + c.H(3) % 3;
  yaclib::FairThreadPool tp{static_cast<std::uint64_t>(workers)};
  long counter = 0;  // plain: what one critical section wrote must be visible in the next
  {
    yaclib::Mutex<B, F> m;
    std::vector<yaclib::Future<>> fs;
    for (int i = 0; i < k; ++i) {
      fs.push_back(MutexWorker<B, F>(tp, m, counter, rounds, c.H(4) + i));
    }
    yaclib::Wait(fs.begin(), fs.end());
    if (counter != static_cast<long>(k) * rounds) {
      err.Set("critical sections of the coroutine mutex lost an increment of a plain counter");
    }
  }
  tp.Stop();
  tp.Wait();
}
void CoMutex(const Case& c, Err& err) {
  switch (c.H(5) % 4) {
    case 0:
      return CoMutexImpl<false, false>(c, err);
    case 1:
      return CoMutexImpl<true, false>(c, err);
    case 2:
      return CoMutexImpl<false, true>(c, err);
    default:
      return CoMutexImpl<true, true>(c, err);
  }
}

template <bool F, bool RF>
yaclib::Future<> RWWorker(yaclib::IExecutor& e, yaclib::SharedMutex<F, RF>& m, long& value, long& sink, bool writer, int rounds) {
  co_await On(e);
  for (int i = 0; i < rounds; ++i) {
    const int form = (i + rounds) % 3;
    if (writer) {
      if (form == 0) {
        auto g = co_await m.Guard();
        ++value;
      } else if (form == 1) {
        if (!m.TryLock()) {
          co_await m.Lock();
        }
        ++value;
        m.UnlockHere();
      } else {
        auto g = m.TryGuard();
        if (!g) {
          g = co_await m.Guard();
        }
        ++value;
      }
    } else {
      if (form == 0) {
        auto g = co_await m.GuardShared();
        sink = value;  // plain read; each reader has its own sink
      } else if (form == 1) {
        if (!m.TryLockShared()) {
          co_await m.LockShared();
        }
        sink = value;
        m.UnlockHereShared();
      } else {
        auto g = m.TryGuardShared();
        if (!g) {
          g = co_await m.GuardShared();
        }
        sink = value;
      }
    }
  }
  co_return{};
}
template <bool F, bool RF>
void CoSharedMutexImpl(const Case& c, Err& err) {
  const int k = 2 + c.H(1) % 4, rounds = 1 + c.H(2) % 6, workers = 2 + c.H(3) % 3;
  yaclib::FairThreadPool tp{static_cast<std::uint64_t>(workers)};
  long value = 0;
  std::vector<long> sinks(static_cast<std::size_t>(k), 0);
  int writers = 0;
  {
    yaclib::SharedMutex<F, RF> m;
    std::vector<yaclib::Future<>> fs;
    for (int i = 0; i < k; ++i) {
      const bool writer = i == 0 || ((c.H(4) >> i) & 1) != 0;
      writers += writer;
      fs.push_back(RWWorker<F, RF>(tp, m, value, sinks[static_cast<std::size_t>(i)], writer, rounds));
    }
    yaclib::Wait(fs.begin(), fs.end());
    if (value != static_cast<long>(writers) * rounds) {
      err.Set("exclusive sections of the coroutine shared mutex lost an increment of a plain counter");
    }
  }
  tp.Stop();
  tp.Wait();
}
void CoSharedMutex(const Case& c, Err& err) {
  switch (c.H(5) % 4) {
    case 0:
      return CoSharedMutexImpl<false, false>(c, err);
    case 1:
      return CoSharedMutexImpl<true, false>(c, err);
    case 2:
      return CoSharedMutexImpl<false, true>(c, err);
    default:
      return CoSharedMutexImpl<true, true>(c, err);
  }
}

void Combinators(const Case& c, Err& err) {
  const int n = 2 + c.H(1) % 3, variant = c.H(2) % 4;
  std::vector<yaclib::Future<int>> fs;
  std::vector<yaclib::Promise<int>> ps;
  std::vector<Box> boxes(static_cast<std::size_t>(n));
  for (int i = 0; i < n; ++i) {
    auto [f, p] = yaclib::MakeContract<int>();
    fs.push_back(std::move(f));
    ps.push_back(std::move(p));
  }
  std::vector<std::thread> ts;
  for (int i = 0; i < n; ++i) {
    ts.emplace_back([&boxes, i, skew = (c.H(3) >> (2 * i)) % 8, fail = variant == 3 && i == 1,
                     p = std::move(ps[static_cast<std::size_t>(i)])]() mutable {
      Spin(skew);
      boxes[static_cast<std::size_t>(i)].Write(i + 1);
      if (fail) {
        std::move(p).Set(yaclib::StopTag{});
      } else {
        std::move(p).Set(i);
      }
    });
  }
  std::latch done{1};
  if (variant == 0 || variant == 3) {
    yaclib::WhenAll(fs.begin(), fs.size()).DetachInline([&](yaclib::Result<std::vector<int>>&& r) {
      if (r) {
        for (int i = 0; i < n; ++i) {
          if (!boxes[static_cast<std::size_t>(i)].Check(i + 1)) {
            err.Set("WhenAll output does not see what an input's producer wrote before Set");
          }
        }
      } else if (!boxes[1].Check(2)) {
        err.Set("WhenAll failure does not see what the failing producer wrote");
      }
      done.count_down();
    });
  } else if (variant == 1) {
    yaclib::WhenAll<yaclib::FailPolicy::None>(fs.begin(), fs.size())
      .DetachInline([&](yaclib::Result<std::vector<yaclib::Result<int>>>&&) {
        for (int i = 0; i < n; ++i) {
          if (!boxes[static_cast<std::size_t>(i)].Check(i + 1)) {
            err.Set("WhenAll<None> output does not see what an input's producer wrote before Set");
          }
        }
        done.count_down();
      });
  } else {
    yaclib::WhenAny(fs.begin(), fs.size()).DetachInline([&](yaclib::Result<int>&& r) {
      if (r) {
        const int w = std::as_const(r).Value();
        if (w < 0 || w >= n || !boxes[static_cast<std::size_t>(w)].Check(w + 1)) {
          err.Set("WhenAny output does not see what the winner's producer wrote before Set");
        }
      }
      done.count_down();
    });
  }
  done.wait();
  for (auto& t : ts) {
    t.join();
  }
}

// coroutine waiters: with a late start the group / event is already released and await_ready (Ready()) is the only edge
yaclib::Future<int> GroupAwaiter(yaclib::WaitGroup<>& wg, yaclib::IExecutor& e, std::vector<Box>& boxes, Err& err, int form) {
  if (form == 0) {
    co_await wg;
  } else if (form == 1) {
    co_await On(e);
    co_await wg.AwaitSticky();
  } else {
    co_await wg.AwaitOn(e);
  }
  for (std::size_t i = 0; i < boxes.size(); ++i) {
    if (!boxes[i].Check(static_cast<long>(i) + 20)) {
      err.Set("a coroutine resumed from co_await on the WaitGroup does not see the writes made before Done");
    }
  }
  co_return 1;
}
yaclib::Future<int> EventAwaiter(yaclib::OneShotEvent& ev, yaclib::IExecutor& e, Box& box, Err& err, int form) {
  if (form == 0) {
    co_await ev;
  } else if (form == 1) {
    co_await On(e);
    co_await ev.AwaitSticky();
  } else {
    co_await ev.AwaitOn(e);
  }
  if (!box.Check(20)) {
    err.Set("a coroutine resumed from co_await on the OneShotEvent does not see the writes made before Set");
  }
  co_return 1;
}

void WaitGroupShape(const Case& c, Err& err) {
  const int workers = 1 + c.H(1) % 4, variant = c.H(2) % 4;
  std::vector<Box> boxes(static_cast<std::size_t>(workers));
  if (c.H(4) % 2 == 1) {
    // coroutine waiters on a group / event that may already be released when they arrive
    const int form = c.H(2) % 3, skew_c = c.H(5) % 64;
    yaclib::FairThreadPool tp{1};
    if (c.H(1) % 2 == 0) {
      yaclib::WaitGroup<> wg{static_cast<std::size_t>(workers)};
      std::vector<std::thread> ts;
      for (int i = 0; i < workers; ++i) {
        ts.emplace_back([&, i, skew = (c.H(3) >> (2 * i)) % 8] {
          Spin(skew);
          boxes[static_cast<std::size_t>(i)].Write(i + 20);
          wg.Done();
        });
      }
      Spin(skew_c * 8);
      auto co = GroupAwaiter(wg, tp, boxes, err, form);
      (void)std::move(co).Get();
      for (auto& t : ts) {
        t.join();
      }
    } else {
      yaclib::OneShotEvent ev;
      std::thread setter([&, skew = c.H(3) % 8] {
        Spin(skew);
        boxes[0].Write(20);
        ev.Set();
      });
      Spin(skew_c * 8);
      auto co = EventAwaiter(ev, tp, boxes[0], err, form);
      (void)std::move(co).Get();
      setter.join();
    }
    tp.Stop();
    tp.Wait();
    return;
  }
  if (variant < 3) {
    yaclib::WaitGroup<> wg{static_cast<std::size_t>(workers)};
    std::vector<std::thread> ts;
    for (int i = 0; i < workers; ++i) {
      ts.emplace_back([&, i, skew = (c.H(3) >> (2 * i)) % 8] {
        Spin(skew);
        boxes[static_cast<std::size_t>(i)].Write(i + 20);
        wg.Done();
      });
    }
    if (variant == 0) {
      wg.Wait();
    } else if (variant == 1) {
      while (!wg.WaitFor(40us)) {
      }
    } else {
      while (!wg.WaitUntil(std::chrono::steady_clock::now() + 40us)) {
      }
    }
    for (int i = 0; i < workers; ++i) {
      if (!boxes[static_cast<std::size_t>(i)].Check(i + 20)) {
        err.Set("after WaitGroup::Wait the writes made before Done are not visible");
      }
    }
    for (auto& t : ts) {
      t.join();
    }
  } else {
    yaclib::OneShotEvent ev;
    std::thread setter([&, skew = c.H(3) % 8] {
      Spin(skew);
      boxes[0].Write(20);
      ev.Set();
    });
    ev.Wait();
    if (!boxes[0].Check(20)) {
      err.Set("after OneShotEvent::Wait the writes made before Set are not visible");
    }
    setter.join();
  }
}

yaclib::Future<int> Awaiter(yaclib::Future<int> f, yaclib::Future<int>& g, Box& box, Err& err, int form, yaclib::IExecutor& e) {
  if (form == 0) {
    (void)co_await std::move(f);
  } else if (form == 1) {
    co_await Await(g);
  } else {
    co_await AwaitOn(e, g);
  }
  if (!box.Check(33)) {
    err.Set("coroutine resumed from co_await does not see what the producer wrote before Set");
  }
  co_return 1;
}

// two futures fulfilled by two threads; depending on the consumer's start skew the coroutine finds them both ready in
// await_ready (no suspension: the counter read there is the only edge), suspends and is resumed by the last one, or
// anything in between
yaclib::Future<int> MultiAwaiter(std::vector<yaclib::Future<int>>& fs, yaclib::SharedFuture<int> sf, Box& b0, Box& b1, Err& err, int form,
                                 yaclib::IExecutor& e) {
  co_await On(e);
  switch (form) {
    case 0:
      co_await Await(fs[0], fs[1]);
      break;
    case 1:
      co_await AwaitOn(e, fs[0], fs[1]);
      break;
    case 2:
      co_await AwaitSticky(fs[0], fs[1]);
      break;
    case 3:
      co_await Await(fs.begin(), std::size_t{2});
      break;
    case 4:
      co_await Await(fs.begin(), fs.end());
      break;
    case 5:
      co_await Await(sf, fs[0]);
      break;
    case 6:
      co_await AwaitSticky(fs[1]);
      (void)co_await sf;
      break;
    default:
      co_await AwaitOn(e, fs.begin(), fs.end());
  }
  const bool uses0 = form != 6, uses1 = form != 5;
  if ((uses0 && !b0.Check(44)) || (uses1 && !b1.Check(55))) {
    err.Set("coroutine resumed from Await(fs...) does not see what the producers wrote before Set");
  }
  if ((uses0 && std::as_const(fs[0]).Touch().Ok() != 1) || (uses1 && std::as_const(fs[1]).Touch().Ok() != 2)) {
    err.Set("Await(fs...) resumed but a future does not hold its value");
  }
  co_return 1;
}

void CoAwaitShape(const Case& c, Err& err) {
  const int form = c.H(1) % 3, skew_p = c.H(2) % 8;
  yaclib::FairThreadPool tp{1};
  if (c.H(4) % 3 != 0) {
    // multi-future forms
    const int mform = c.H(1) % 8, skew_c = c.H(3) % 64, skew_q = c.H(5) % 8;
    std::vector<yaclib::Future<int>> fs;
    std::vector<yaclib::Promise<int>> ps;
    for (int i = 0; i < 2; ++i) {
      auto [f, p] = yaclib::MakeContract<int>();
      fs.push_back(std::move(f));
      ps.push_back(std::move(p));
    }
    auto [sf, sp] = yaclib::MakeSharedContract<int>();
    Box b0, b1;
    std::thread p0([&b0, skew_p, p = std::move(ps[0])]() mutable {
      Spin(skew_p);
      b0.Write(44);
      std::move(p).Set(1);
    });
    std::thread p1([&b1, skew_q, p = std::move(ps[1]), sp = std::move(sp)]() mutable {
      Spin(skew_q);
      b1.Write(55);
      std::move(p).Set(2);
      std::move(sp).Set(3);
    });
    Spin(skew_c * 8);  // from "both still pending" to "both long ready"
    auto co = MultiAwaiter(fs, sf, b0, b1, err, mform, tp);
    (void)std::move(co).Get();
    p0.join();
    p1.join();
    tp.Stop();
    tp.Wait();
    return;
  }
  auto [f, p] = yaclib::MakeContract<int>();
  auto [g, pg] = yaclib::MakeContract<int>();
  Box box;
  std::thread producer([&box, skew_p, p = std::move(p), pg = std::move(pg)]() mutable {
    Spin(skew_p);
    box.Write(33);
    std::move(p).Set(1);
    std::move(pg).Set(2);
  });
  auto co = Awaiter(std::move(f), g, box, err, form, tp);
  (void)std::move(co).Get();
  producer.join();
  tp.Stop();
  tp.Wait();
}

class Races final : public vf::Family {
 public:
  const char* Name() const final {
    return kFamily;
  }
  const char* Property() const final {
    return "C04";
  }
  const char* Rule() const final {
    return "case = one of 12 client program shapes (promise->continuation in 6 attach forms, Get/Wait/WaitFor/WaitUntil "
           "return, SharedFuture observers incl. copies dropped and moved out on other threads, last-owner destruction, "
           "consecutive strand jobs of several submitters, pool submit->run and run->Wait, HardStop vs workers, coroutine "
           "Mutex / SharedMutex critical sections for all options, WhenAll/WhenAny outputs, WaitGroup/OneShotEvent "
           "Done->Wait, co_await resumption) x thread counts x start skews, each executed 20 times on real OS threads "
           "under ThreadSanitizer; oracle = zero TSan reports (happens-before analysis) and correct plain payloads; "
           "non-trivial = the plain payload was written and read by different OS threads (true for every shape by "
           "construction); distinct = parameter tuple";
  }
  rc::Gen<Case> Gen() const final {
    return rc::gen::exec([]() {
      Case c;
      c.hdr = {vf::Pick(0, kShapeN), vf::Pick(0, 64), vf::Pick(0, 64), vf::Pick(0, 4096), vf::Pick(0, 64), vf::Pick(0, 4096),
               vf::Pick(1, 30), vf::Pick(1, 200)};
      return c;
    });
  }
  std::string Describe(const Case& c) const final {
    char b[200];
    std::snprintf(b, sizeof b, "shape=%s params=[%d,%d,%d,%d,%d] fault_freq=%d sleep_ns=%d reps=20", kShapeName[c.H(0) % kShapeN],
                  c.H(1), c.H(2), c.H(3), c.H(4), c.H(5), 1 + c.H(6) % 30, 1 + c.H(7) % 200);
    return b;
  }
  Verdict Run(const Case& c, Explorer&) final {
    Verdict v;
    Err err;
    yaclib::SetFaultFrequency(static_cast<std::uint32_t>(1 + c.H(6) % 30));
    yaclib::SetFaultSleepTime(static_cast<std::uint32_t>(1 + c.H(7) % 200));
    for (int rep = 0; rep < 20 && err.msg.load() == nullptr; ++rep) {
      switch (c.H(0) % kShapeN) {
        case kContinuation:
          Continuation(c, err);
          break;
        case kGetWait:
          GetWait(c, err);
          break;
        case kSharedObservers:
          SharedObservers(c, err);
          break;
        case kLastOwner:
          LastOwner(c, err);
          break;
        case kStrand:
          StrandJobs(c, err);
          break;
        case kPool:
          Pool(c, err);
          break;
        case kCoMutex:
          CoMutex(c, err);
          break;
        case kCoSharedMutex:
          CoSharedMutex(c, err);
          break;
        case kCombinators:
          Combinators(c, err);
          break;
        case kWaitGroup:
          WaitGroupShape(c, err);
          break;
        case kCoAwait:
          CoAwaitShape(c, err);
          break;
        default:
          PoolHardStop(c, err);
      }
    }
    if (const char* m = err.msg.load()) {
      v.Fail(m);
    }
    v.nontrivial = true;
    v.hash = c.ProgHash();
    v.tags.push_back(kShapeName[c.H(0) % kShapeN]);
    return v;
  }
};

}  // namespace

int main(int argc, char** argv) {
  Races fam;
  vf::Driver d{{&fam}};
  return d.Main(argc, argv);
}
