// C01: a fulfilled Promise is delivered to its Future exactly once, intact - for every interleaving of one
// producer fiber and one consumer fiber, every consumer kind x producer kind x payload type.
#define VF_LEDGER_IMPL
#include "common/driver.hpp"
#include "common/fibers.hpp"
#include "common/host.hpp"
#include "common/ledger.hpp"
#include "common/testexec.hpp"
#include "common/tracked.hpp"

#include <yaclib/async/connect.hpp>
#include <yaclib/async/contract.hpp>
#include <yaclib/async/make.hpp>
#include <yaclib/async/wait.hpp>

#include <cstdio>
#include <exception>
#include <string>

namespace {

using vf::Case;
using vf::Explorer;
using vf::Verdict;

struct TErr {
  int code;
  TErr(yaclib::StopTag) noexcept : code{-1} {
  }
  explicit TErr(int c) noexcept : code{c} {
  }
  static const char* What() noexcept {
    return "TErr";
  }
};
struct TExc {
  int id;
};

enum Prod {
  kSetValue,
  kSetError,
  kSetException,
  kDropPromise,
  kOverwritePromise,   // p = std::move(other): the unset state must still be abandoned properly (StopError)
  kSetThrowsThenDrop,  // Set(...) throws while constructing the value: the Promise stays valid, then it is dropped
  kSetThrowsThenSet,   // ... or fulfilled by a second Set
  kProdN
};
enum Cons {
  kThenInline,
  kThenExec,
  kOnDetach,
  kDetachInline,
  kDetachExec,
  kGetRvalue,
  kPollGet,
  kWaitTouch,
  kConnect,
  kDropFuture,
  kConnectAttached,  // the downstream future already has a continuation when Connect is called
  kConnectWaiter,    // a third fiber already blocks in Get on the downstream future when Connect is called
  kOverwriteFuture,  // f = std::move(other): like dropping the Future, nothing may run and the state is released once
  kUnwrapDetach,     // the Future is returned from a continuation of another chain (flattening subscribes to it while
  kUnwrapGet,        // the producer fulfils it); the flattened result is consumed by DetachInline / by Get
  kConsN
};
const char* const kProdName[] = {"Set(value)", "Set(error)", "Set(exception)", "drop-promise", "promise overwritten by move-assignment",
                                 "Set throws, then drop-promise", "Set throws, then Set(value)"};
const char* const kConsName[] = {"ThenInline",  "Then(e)", "FutureOn::Detach", "DetachInline", "Detach(e)",
                                 "Get&&",       "Get const& polled", "Wait+Touch",     "Connect",      "drop-future",
                                 "Connect(downstream continuation attached first)",
                                 "Connect(downstream Get already blocked)", "future overwritten by move-assignment",
                                 "returned from a continuation, then DetachInline", "returned from a continuation, then Get"};
const char* const kPayName[] = {"int", "move-only", "4-word-checksum"};

template <typename P>
P MakeVal(int v) {
  if constexpr (std::is_same_v<P, int>) {
    return v;
  } else {
    return P{v};
  }
}
template <typename P>
int ReadVal(const P& p) {
  if constexpr (std::is_same_v<P, int>) {
    return p;
  } else {
    return p.Read();
  }
}

// an argument for Promise::Set whose conversion to the value type throws (stands for a throwing copy / bad_alloc)
template <typename P>
struct Thrower {
  operator P() const {  // NOLINT
    throw TExc{1};
  }
};

struct Ctx {
  int pk = 0;
  bool set_begun = false;
  int calls = 0;
  const char* err = nullptr;
  long clock = 0;
  long p_begin = -1, p_end = -1, c_begin = -1, c_end = -1;
  void Err(const char* e) {
    if (err == nullptr) {
      err = e;
    }
  }
};

template <typename P>
void CheckResult(Ctx& cx, const yaclib::Result<P, TErr>& r) {
  if (!cx.set_begun) {
    cx.Err("result observed before the producer began to fulfil (delivered early)");
  }
  switch (cx.pk == kSetThrowsThenSet ? kSetValue : cx.pk) {
    case kSetValue:
      if (r.State() != yaclib::ResultState::Value) {
        cx.Err("expected a value");
      } else if (ReadVal<P>(r.Value()) != 42) {
        cx.Err("value differs from what was Set");
      }
      break;
    case kSetError:
      if (r.State() != yaclib::ResultState::Error) {
        cx.Err("expected an error");
      } else if (r.Error().code != 5) {
        cx.Err("error differs from what was Set");
      }
      break;
    case kSetException:
      if (r.State() != yaclib::ResultState::Exception) {
        cx.Err("expected an exception");
      } else {
        try {
          std::rethrow_exception(r.Exception());
        } catch (const TExc& e) {
          if (e.id != 9) {
            cx.Err("exception differs from what was Set");
          }
        } catch (...) {
          cx.Err("foreign exception delivered");
        }
      }
      break;
    default:
      if (r.State() != yaclib::ResultState::Error) {
        cx.Err("dropped promise must deliver StopError");
      } else if (r.Error().code != -1) {
        cx.Err("dropped promise delivered a non-stop error");
      }
  }
}

template <typename P>
void Body(Ctx& cx, int ck, int ek) {
  using R = yaclib::Result<P, TErr>;
  vf::TagInlineExec inl{1};
  vf::QueueExec que{2};
  yaclib::IExecutor& e = ek == 0 ? static_cast<yaclib::IExecutor&>(inl) : static_cast<yaclib::IExecutor&>(que);
  yaclib_std::thread server;
  const bool uses_exec = ck == kThenExec || ck == kOnDetach || ck == kDetachExec;
  if (uses_exec && ek == 1) {
    server = yaclib_std::thread([&] { que.Serve(); });
  }

  yaclib::Future<P, TErr> f;
  yaclib::FutureOn<P, TErr> fon;
  yaclib::Promise<P, TErr> p;
  if (ck == kOnDetach) {
    auto [ff, pp] = yaclib::MakeContractOn<P, TErr>(e);
    fon = std::move(ff);
    p = std::move(pp);
  } else {
    auto [ff, pp] = yaclib::MakeContract<P, TErr>();
    f = std::move(ff);
    p = std::move(pp);
  }

  yaclib_std::thread producer([&cx, p = std::move(p)]() mutable {
    vf::Point();
    cx.p_begin = ++cx.clock;
    cx.set_begun = true;
    switch (cx.pk) {
      case kSetValue:
        std::move(p).Set(MakeVal<P>(42));
        break;
      case kSetError:
        std::move(p).Set(TErr{5});
        break;
      case kSetException:
        std::move(p).Set(std::make_exception_ptr(TExc{9}));
        break;
      case kOverwritePromise: {
        auto [f3, p3] = yaclib::MakeContract<P, TErr>();
        p = std::move(p3);  // the unset state we owned moves into p3 and dies with it at the end of this scope
        break;
      }
      case kSetThrowsThenDrop:
      case kSetThrowsThenSet: {
        bool thrown = false;
        try {
          std::move(p).Set(Thrower<P>{});
        } catch (const TExc&) {
          thrown = true;
        }
        if (!thrown) {
          cx.Err("Set with a throwing value constructor did not propagate the exception");
        } else if (!p.Valid()) {
          cx.Err("a Set that threw left the Promise invalid: its state can no longer be fulfilled or abandoned");
        } else if (cx.pk == kSetThrowsThenSet) {
          vf::Point();
          std::move(p).Set(MakeVal<P>(42));
        } else {
          auto dropped = std::move(p);
        }
        break;
      }
      default: {
        auto dropped = std::move(p);
      }
    }
    cx.p_end = ++cx.clock;
  });

  vf::Point();
  vf::Guard guard;
  auto sample_ready = [&](auto& fut) {
    if (fut.Ready()) {
      if (!cx.set_begun) {
        cx.Err("Ready() true before the producer began to fulfil");
      }
      const R* r = std::as_const(fut).Get();
      if (r == nullptr) {
        cx.Err("Ready() true but Get() const& returned null");
      } else {
        CheckResult<P>(cx, *r);
      }
    }
  };
  bool expect_call = true;
  yaclib_std::thread waiter;
  bool has_waiter = false;
  cx.c_begin = ++cx.clock;
  switch (ck) {
    case kThenInline: {
      sample_ready(f);
      auto f2 = std::move(f).ThenInline([&cx, guard](R&& r) {
        guard.Use();
        ++cx.calls;
        CheckResult<P>(cx, r);
        return 1;
      });
      cx.c_end = ++cx.clock;
      auto r2 = std::move(f2).Get();
      if (!r2 || std::move(r2).Ok() != 1) {
        cx.Err("chained future lost the continuation's return value");
      }
      break;
    }
    case kThenExec: {
      sample_ready(f);
      auto f2 = std::move(f).Then(e, [&cx, guard, ek](R&& r) {
        guard.Use();
        ++cx.calls;
        if (vf::CurrentExecTag() != (ek == 0 ? 1 : 2)) {
          cx.Err("Then(e, f) ran outside e");
        }
        CheckResult<P>(cx, r);
        return 1;
      });
      cx.c_end = ++cx.clock;
      auto r2 = std::move(f2).Get();
      if (!r2 || std::move(r2).Ok() != 1) {
        cx.Err("chained future lost the continuation's return value");
      }
      break;
    }
    case kOnDetach: {
      sample_ready(fon);
      std::move(fon).Detach([&cx, guard, ek](R&& r) {
        guard.Use();
        ++cx.calls;
        if (vf::CurrentExecTag() != (ek == 0 ? 1 : 2)) {
          cx.Err("FutureOn::Detach(f) ran outside its executor");
        }
        CheckResult<P>(cx, r);
      });
      cx.c_end = ++cx.clock;
      break;
    }
    case kDetachInline: {
      sample_ready(f);
      std::move(f).DetachInline([&cx, guard](R&& r) {
        guard.Use();
        ++cx.calls;
        CheckResult<P>(cx, r);
      });
      cx.c_end = ++cx.clock;
      break;
    }
    case kDetachExec: {
      sample_ready(f);
      std::move(f).Detach(e, [&cx, guard, ek](R&& r) {
        guard.Use();
        ++cx.calls;
        if (vf::CurrentExecTag() != (ek == 0 ? 1 : 2)) {
          cx.Err("Detach(e, f) ran outside e");
        }
        CheckResult<P>(cx, r);
      });
      cx.c_end = ++cx.clock;
      break;
    }
    case kGetRvalue: {
      sample_ready(f);
      R r = std::move(f).Get();
      cx.c_end = ++cx.clock;
      ++cx.calls;
      CheckResult<P>(cx, r);
      break;
    }
    case kPollGet: {
      for (int i = 0; i < 3; ++i) {
        sample_ready(f);
        vf::Point();
      }
      yaclib::Wait(f);
      cx.c_end = ++cx.clock;
      if (!f.Ready()) {
        cx.Err("Wait returned but Ready() is false");
      }
      const R* r = std::as_const(f).Get();
      if (r == nullptr) {
        cx.Err("Get() const& null after Wait");
      } else {
        CheckResult<P>(cx, *r);
      }
      R rr = std::move(f).Get();
      ++cx.calls;
      CheckResult<P>(cx, rr);
      break;
    }
    case kWaitTouch: {
      sample_ready(f);
      yaclib::Wait(f);
      cx.c_end = ++cx.clock;
      if (!f.Ready()) {
        cx.Err("Wait returned but Ready() is false");
      }
      CheckResult<P>(cx, std::as_const(f).Touch());
      R r = std::move(f).Touch();
      ++cx.calls;
      CheckResult<P>(cx, r);
      break;
    }
    case kConnect: {
      auto [f2, p2] = yaclib::MakeContract<P, TErr>();
      sample_ready(f);
      yaclib::Connect(std::move(f), std::move(p2));
      cx.c_end = ++cx.clock;
      R r = std::move(f2).Get();
      ++cx.calls;
      CheckResult<P>(cx, r);
      break;
    }
    case kConnectAttached: {
      auto [f2, p2] = yaclib::MakeContract<P, TErr>();
      std::move(f2).DetachInline([&cx, guard](R&& r) {
        guard.Use();
        ++cx.calls;
        CheckResult<P>(cx, r);
      });
      sample_ready(f);
      yaclib::Connect(std::move(f), std::move(p2));
      cx.c_end = ++cx.clock;
      break;
    }
    case kConnectWaiter: {
      auto [f2, p2] = yaclib::MakeContract<P, TErr>();
      waiter = yaclib_std::thread([&cx, f2 = std::move(f2)]() mutable {
        R r = std::move(f2).Get();
        ++cx.calls;
        CheckResult<P>(cx, r);
      });
      has_waiter = true;
      vf::Point();
      sample_ready(f);
      yaclib::Connect(std::move(f), std::move(p2));
      cx.c_end = ++cx.clock;
      break;
    }
    case kUnwrapDetach:
    case kUnwrapGet: {
      sample_ready(f);
      // the step's functor owns Tracked captures; it must be destroyed exactly once and not be touched after the
      // step has been published as the inner future's callback (the producer may complete and release it at once)
      auto outer = yaclib::MakeFuture<void, TErr>().ThenInline([inner = std::move(f), guard]() mutable {
        guard.Use();
        return std::move(inner);
      });
      if (ck == kUnwrapDetach) {
        std::move(outer).DetachInline([&cx, guard](R&& r) {
          guard.Use();
          ++cx.calls;
          CheckResult<P>(cx, r);
        });
        cx.c_end = ++cx.clock;
      } else {
        cx.c_end = ++cx.clock;
        R r = std::move(outer).Get();
        ++cx.calls;
        CheckResult<P>(cx, r);
      }
      break;
    }
    case kOverwriteFuture: {
      sample_ready(f);
      {
        auto [f3, p3] = yaclib::MakeContract<P, TErr>();
        f = std::move(f3);  // the pending state we owned moves into f3 and is dropped with it
      }
      cx.c_end = ++cx.clock;
      expect_call = false;
      break;
    }
    default: {
      sample_ready(f);
      { auto dropped = std::move(f); }
      cx.c_end = ++cx.clock;
      expect_call = false;
    }
  }
  if (has_waiter) {
    waiter.join();
  }
  producer.join();
  if (server.joinable() && uses_exec && ek == 1) {
    que.Stop();
    server.join();
  }
  if (expect_call && cx.calls != 1) {
    cx.Err(cx.calls == 0 ? "completion lost: continuation / Get never observed the result"
                         : "completion duplicated: continuation ran more than once");
  }
  if (!expect_call && cx.calls != 0) {
    cx.Err("something ran although the Future was dropped");
  }
}

class Handoff final : public vf::Family {
 public:
  const char* Name() const final {
    return "handoff";
  }
  const char* Property() const final {
    return "C01";
  }
  const char* Rule() const final {
    return "program = producer kind x consumer kind x payload type x executor kind, two fibers (+1 serving fiber); "
           "schedule = explorer tape (random) or bounded-exhaustive DFS; non-trivial = the producer's fulfil window "
           "[before Set, after Set] and the consumer's attach/Get window overlap in logical time (a switch happened "
           "inside one of them); distinct = (program, effective fiber trace)";
  }
  rc::Gen<Case> Gen() const final {
    return rc::gen::exec([]() {
      Case c;
      c.hdr = {vf::Pick(0, kProdN), vf::Pick(0, kConsN), vf::Pick(0, 3), vf::Pick(0, 2)};
      c.tape = *vf::GenTape(96);
      return c;
    });
  }
  std::vector<Case> DfsPrograms(int) const final {
    std::vector<Case> out;
    for (int pk = 0; pk < kProdN; ++pk) {
      for (int ck = 0; ck < kConsN; ++ck) {
        for (int pay = 0; pay < 3; ++pay) {
          const bool uses_exec = ck == kThenExec || ck == kOnDetach || ck == kDetachExec;
          for (int ek = 0; ek < (uses_exec ? 2 : 1); ++ek) {
            Case c;
            c.hdr = {pk, ck, pay, ek};
            out.push_back(c);
          }
        }
      }
    }
    return out;
  }
  std::string Describe(const Case& c) const final {
    char b[256];
    std::snprintf(b, sizeof b, "producer=%s consumer=%s payload=%s exec=%s tape_len=%zu", kProdName[c.H(0) % kProdN],
                  kConsName[c.H(1) % kConsN], kPayName[c.H(2) % 3], c.H(3) % 2 == 0 ? "inline-tagged" : "queue-fiber",
                  c.tape.size());
    return b;
  }

  Verdict Run(const Case& c, Explorer& ex) final {
    Verdict v;
    vf::TheHost().Run([&] { RunOnHost(c, ex, v); });
    return v;
  }

 private:
  void RunOnHost(const Case& c, Explorer& ex, Verdict& v) {
    if (!_warm) {
      _warm = true;
      Explorer w;
      vf::RunFibers(w, [] {
        std::vector<yaclib_std::thread> ts;
        ts.reserve(8);
        for (int i = 0; i < 8; ++i) {
          ts.emplace_back([] { vf::Point(); });
        }
        for (auto& t : ts) {
          t.join();
        }
      });
    }
    Ctx cx;
    cx.pk = c.H(0) % kProdN;
    const int ck = c.H(1) % kConsN, pay = c.H(2) % 3, ek = c.H(3) % 2;
    vf::TS().Reset();
    long live_delta = 0;
    const bool done = vf::RunFibers(ex, [&] {
      const long live0 = vf::L().Live();
      switch (pay) {
        case 0:
          Body<int>(cx, ck, ek);
          break;
        case 1:
          Body<vf::MoPay>(cx, ck, ek);
          break;
        default:
          Body<vf::Pay>(cx, ck, ek);
      }
      live_delta = vf::L().Live() - live0;
    });
    v.inconclusive = ex.over_budget;
    if (!done) {
      v.Fail("deadlock: the consumer never got the result (lost completion / lost wake-up)");
    } else if (cx.err != nullptr) {
      v.Fail(cx.err);
    } else if (vf::TS().err != nullptr) {
      v.Fail(vf::TS().err);
    } else if (vf::TS().Live() != 0) {
      v.Fail("payload / functor objects constructed != destroyed at quiescence");
    } else if (live_delta != 0) {
      v.Fail("heap blocks allocated for the hand-off remain at quiescence");
    }
    const bool overlap = cx.p_begin >= 0 && cx.c_begin >= 0 && cx.p_begin < cx.c_end && cx.c_begin < cx.p_end;
    v.nontrivial = overlap;
    v.hash = vf::Mix64(c.ProgHash(), ex.trace_hash);
    if (overlap) {
      v.tags.push_back("windows-overlap");
    }
    v.tags.push_back(kConsName[ck]);
    char b[96];
    std::snprintf(b, sizeof b, "switches=%u queries=%llu", ex.switches, static_cast<unsigned long long>(ex.queries));
    v.detail = b;
  }
  bool _warm = false;
};

}  // namespace

int main(int argc, char** argv) {
  Handoff handoff;
  vf::Driver d{{&handoff}};
  return d.Main(argc, argv);
}
