// C14 coroutine Mutex and C15 coroutine SharedMutex: exclusion / compatibility, no lost wake-up, FIFO grants.
#include "common/driver.hpp"
#include "common/fibers.hpp"
#include "common/host.hpp"

#include <yaclib/async/wait.hpp>
#include <yaclib/coro/await.hpp>
#include <yaclib/coro/future.hpp>
#include <yaclib/coro/mutex.hpp>
#include <yaclib/coro/on.hpp>
#include <yaclib/coro/shared_mutex.hpp>
#include <yaclib/coro/yield.hpp>
#include <yaclib/runtime/fair_thread_pool.hpp>

#include <cstdio>
#include <string>
#include <utility>
#include <vector>

namespace {

using vf::Case;
using vf::Explorer;
using vf::Verdict;

enum LockForm { kLock, kGuard, kGuardSticky, kTryLock, kTryGuard, kDeferGuard, kLockFormN };
enum UnlockForm { kUnlock, kUnlockOn, kUnlockHere, kGuardDtor, kGuardUnlock, kUnlockFormN };
const char* const kLockName[] = {"Lock", "Guard", "GuardSticky", "TryLock", "TryGuard", "deferred guard + guard.TryLock"};
const char* const kUnlockName[] = {"Unlock", "UnlockOn(e)", "UnlockHere", "guard-destruction", "guard.Unlock"};

struct Round {
  int lock, unlock, yield_inside;
};

struct MCtx {
  int holders = 0;
  int cs = 0;
  long data = 0;  // plain data written inside the critical section: must be visible in the next one
  int finished = 0;
  int contended = 0;
  int try_success_while_held = 0;
  int given_up = 0;  // rounds whose guard.TryLock() failed and that dropped the (not owning) guard instead of waiting
  const char* err = nullptr;
  std::vector<std::pair<int, int>> arrivals, grants;
  bool fifo_observable = true;
  void Err(const char* e) {
    if (err == nullptr) {
      err = e;
    }
  }
  void Enter(int id, int round) {
    ++holders;
    if (holders != 1) {
      Err("two coroutines inside the critical section at the same time");
    }
    if (data != cs) {
      Err("data written by the previous critical section is not visible in the next");
    }
    ++cs;
    ++data;
    grants.emplace_back(id, round);
  }
  void Leave() {
    --holders;
  }
};

template <bool B, bool F>
yaclib::Future<> MutexWorker(yaclib::IExecutor& pool, yaclib::IExecutor& other, yaclib::Mutex<B, F>& m, MCtx& cx, int id,
                             std::vector<Round> rounds) {
  co_await On(pool);
  for (std::size_t r = 0; r < rounds.size(); ++r) {
    const Round rd = rounds[r];
    const int round = static_cast<int>(r);
    vf::Point();
    if (cx.holders > 0) {
      ++cx.contended;
    }
    auto inside = [&]() -> bool { return rd.yield_inside != 0; };
    switch (rd.lock) {
      case kLock:
      case kTryLock: {
        if (rd.lock == kTryLock) {
          if (m.TryLock()) {
            cx.fifo_observable = false;  // arrival of a successful try is not logged
          } else {
            cx.arrivals.emplace_back(id, round);
            co_await m.Lock();
          }
        } else {
          cx.arrivals.emplace_back(id, round);
          co_await m.Lock();
        }
        cx.Enter(id, round);
        if (inside()) {
          co_await yaclib::kYield;
        }
        cx.Leave();
        if (rd.unlock == kUnlockOn) {
          cx.fifo_observable = false;
          co_await m.UnlockOn(other);
        } else if (rd.unlock == kUnlockHere || rd.unlock == kGuardDtor) {
          m.UnlockHere();
        } else {
          co_await m.Unlock();
        }
        break;
      }
      case kGuard:
      case kTryGuard: {
        yaclib::UniqueGuard<yaclib::Mutex<B, F>> g;
        if (rd.lock == kTryGuard) {
          g = m.TryGuard();
          if (g) {
            cx.fifo_observable = false;  // arrival of a successful try is not logged
          }
        }
        if (!g) {
          cx.arrivals.emplace_back(id, round);
          g = co_await m.Guard();
        }
        if (!g.OwnsLock()) {
          cx.Err("Guard() returned a guard that does not own the lock");
        }
        cx.Enter(id, round);
        if (inside()) {
          co_await yaclib::kYield;
        }
        cx.Leave();
        if (rd.unlock == kUnlock || rd.unlock == kGuardUnlock) {
          co_await g.Unlock();
        } else if (rd.unlock == kUnlockOn) {
          cx.fifo_observable = false;
          co_await g.UnlockOn(other);
        } else if (rd.unlock == kUnlockHere) {
          g.UnlockHere();
        }  // else: guard destruction at scope exit
        break;
      }
      case kDeferGuard: {
        // guard object API: deferred construction, guard.TryLock(), guard.Lock(), Release(); a guard that does not own
        // the lock must say so and must not unlock anything when it dies
        yaclib::UniqueGuard<yaclib::Mutex<B, F>> g{m, std::defer_lock};
        if (g.OwnsLock()) {
          cx.Err("a deferred guard claims to own the lock");
        }
        const bool got = g.TryLock();
        if (got != g.OwnsLock()) {
          cx.Err(got ? "guard.TryLock() succeeded but the guard does not own the lock"
                     : "guard.TryLock() failed but the guard claims to own the lock");
        }
        if (got) {
          cx.fifo_observable = false;
        } else if (rd.unlock == kUnlockHere) {
          ++cx.given_up;  // the guard dies here without the lock
          break;
        } else {
          cx.arrivals.emplace_back(id, round);
          co_await g.Lock();
          if (!g.OwnsLock()) {
            cx.Err("guard.Lock() resumed but the guard does not own the lock");
          }
        }
        cx.Enter(id, round);
        if (inside()) {
          co_await yaclib::kYield;
        }
        cx.Leave();
        if (rd.unlock == kUnlock) {
          auto* pm = g.Release();  // hand the lock back to the raw API
          if (pm != &m || g.OwnsLock()) {
            cx.Err("guard.Release() did not hand over the mutex");
          }
          co_await pm->Unlock();
        } else if (rd.unlock == kGuardUnlock) {
          co_await g.Unlock();
        } else if (rd.unlock == kUnlockOn) {
          cx.fifo_observable = false;
          co_await g.UnlockOn(other);
        }  // else: guard destruction at scope exit (kUnlockHere after a successful TryLock, kGuardDtor)
        break;
      }
      default: {
        cx.arrivals.emplace_back(id, round);
        auto g = co_await m.GuardSticky();
        if (!g.OwnsLock()) {
          cx.Err("GuardSticky() returned a guard that does not own the lock");
        }
        cx.Enter(id, round);
        if (inside()) {
          co_await yaclib::kYield;
        }
        cx.Leave();
        if (rd.unlock == kGuardDtor || rd.unlock == kUnlockHere) {
          // destruction
        } else {
          co_await g.Unlock();
        }
      }
    }
  }
  ++cx.finished;
  co_return{};
}

struct SCtx {
  int readers = 0, writers = 0;
  int finished = 0;
  int contended = 0;
  long data = 0, writes = 0;
  const char* err = nullptr;
  void Err(const char* e) {
    if (err == nullptr) {
      err = e;
    }
  }
  void EnterW() {
    ++writers;
    if (writers != 1 || readers != 0) {
      Err("exclusive holder overlaps with another holder");
    }
    if (data != writes) {
      Err("data written under the exclusive lock is not visible to the next writer");
    }
    ++data;
    ++writes;
  }
  void EnterR() {
    ++readers;
    if (writers != 0) {
      Err("shared holder overlaps with an exclusive holder");
    }
    if (data != writes) {
      Err("reader does not see the data written under the exclusive lock");
    }
  }
};

enum RWForm { kRwLock, kRwGuard, kRwTryLock, kRwTryGuard, kRwDeferGuard, kRwFormN };
const char* const kRwName[] = {"Lock+UnlockHere", "Guard", "TryLock", "TryGuard", "deferred guard + guard.TryLock"};

template <bool F, bool RF>
yaclib::Future<> RWWorker(yaclib::IExecutor& pool, yaclib::SharedMutex<F, RF>& m, SCtx& cx, bool writer,
                          std::vector<Round> rounds) {
  co_await On(pool);
  for (const Round rd : rounds) {
    vf::Point();
    if (writer ? (cx.readers > 0 || cx.writers > 0) : cx.writers > 0) {
      ++cx.contended;
    }
    const int form = rd.lock % kRwFormN;
    if (writer) {
      if (form == kRwLock || form == kRwTryLock) {
        if (form == kRwLock || !m.TryLock()) {
          co_await m.Lock();
        }
        cx.EnterW();
        if (rd.yield_inside != 0) {
          co_await yaclib::kYield;
        }
        --cx.writers;
        m.UnlockHere();
      } else {
        yaclib::UniqueGuard<yaclib::SharedMutex<F, RF>> g;
        if (form == kRwTryGuard) {
          g = m.TryGuard();
        } else if (form == kRwDeferGuard) {
          g = yaclib::UniqueGuard<yaclib::SharedMutex<F, RF>>{m, std::defer_lock};
          const bool got = g.TryLock();
          if (got != g.OwnsLock()) {
            cx.Err("guard.TryLock() result and guard.OwnsLock() disagree (exclusive)");
          }
          if (!got && rd.unlock % 3 == 2) {
            continue;  // give up: the guard that does not own the lock dies here and must not unlock anything
          }
          if (!got) {
            co_await g.Lock();
          }
        }
        if (!g) {
          g = co_await m.Guard();
        }
        cx.EnterW();
        if (rd.yield_inside != 0) {
          co_await yaclib::kYield;
        }
        --cx.writers;
        if (rd.unlock % 2 == 0) {
          g.UnlockHere();
        }
      }
    } else {
      if (form == kRwLock || form == kRwTryLock) {
        if (form == kRwLock || !m.TryLockShared()) {
          co_await m.LockShared();
        }
        cx.EnterR();
        if (rd.yield_inside != 0) {
          co_await yaclib::kYield;
        }
        --cx.readers;
        m.UnlockHereShared();
      } else {
        yaclib::SharedGuard<yaclib::SharedMutex<F, RF>> g;
        if (form == kRwTryGuard) {
          g = m.TryGuardShared();
        } else if (form == kRwDeferGuard) {
          g = yaclib::SharedGuard<yaclib::SharedMutex<F, RF>>{m, std::defer_lock};
          const bool got = g.TryLock();
          if (got != g.OwnsLock()) {
            cx.Err("guard.TryLock() result and guard.OwnsLock() disagree (shared)");
          }
          if (!got && rd.unlock % 3 == 2) {
            continue;  // give up without the lock
          }
          if (!got) {
            co_await g.Lock();
          }
        }
        if (!g) {
          g = co_await m.GuardShared();
        }
        cx.EnterR();
        if (rd.yield_inside != 0) {
          co_await yaclib::kYield;
        }
        --cx.readers;
        if (rd.unlock % 2 == 0) {
          g.UnlockHere();
        }
      }
    }
  }
  ++cx.finished;
  co_return{};
}

struct Decoded {
  int opts, k, n;
  std::vector<std::vector<Round>> rounds;
  int writers_mask;
};

Decoded DecodeCase(const Case& c) {
  Decoded d{};
  d.opts = c.H(0) % 4;
  d.k = 2 + c.H(1) % 3;
  d.n = 1 + c.H(2) % 3;
  d.writers_mask = c.H(3);
  d.rounds.resize(static_cast<std::size_t>(d.k));
  for (std::size_t i = 0; i < c.Records(); ++i) {
    const int* r = c.Rec(i);
    auto& v = d.rounds[static_cast<std::size_t>(r[0]) % d.rounds.size()];
    if (v.size() < 3) {
      v.push_back({r[1], r[2], r[3]});
    }
  }
  for (auto& v : d.rounds) {
    if (v.empty()) {
      v.push_back({0, 0, 0});
    }
  }
  return d;
}

class CoMutex final : public vf::Family {
 public:
  explicit CoMutex(bool shared) : _shared{shared} {
  }
  const char* Name() const final {
    return _shared ? "cosharedmutex" : "comutex";
  }
  const char* Property() const final {
    return _shared ? "C15" : "C14";
  }
  const char* Rule() const final {
    return _shared
             ? "case = <FIFO,ReadersFIFO> option pair x 2..4 reader/writer coroutines x 1..3 rounds each (forms: Lock / "
               "LockShared + UnlockHere(Shared), Guard / GuardShared, TryLock(Shared), TryGuard(Shared); optional Yield "
               "inside the section) x FairThreadPool of 1..3 workers x schedule tape; oracle = a writer never overlaps "
               "anyone, readers overlap only readers, data written under the exclusive lock is visible to the next "
               "holder, every coroutine finishes (exact quiescent-deadlock detection); non-trivial = a writer arrived "
               "while the lock was held or a reader arrived while a writer held it; distinct = (program, fiber trace)"
             : "case = <Batching,FIFO> option pair x 2..4 coroutines x 1..3 rounds each (lock forms Lock, Guard, "
               "GuardSticky, TryLock, TryGuard; unlock forms Unlock, UnlockOn(e), UnlockHere, guard destruction, "
               "guard.Unlock; optional Yield inside) x FairThreadPool of 1..3 workers (+ a one-worker pool as the "
               "UnlockOn target) x schedule tape; oracle = holders <= 1 at every entry (so a Try* success while held is "
               "caught), data written in one critical section visible in the next, every coroutine finishes (exact "
               "quiescent-deadlock detection), with FIFO and a single worker grants follow arrival order; non-trivial "
               "= a request arrived while the mutex was held; distinct = (program, fiber trace)";
  }
  rc::Gen<Case> Gen() const final {
    return rc::gen::exec([]() {
      Case c;
      c.recw = 4;
      const int k = vf::Pick(0, 3);
      c.hdr = {vf::Pick(0, 4), k, vf::Pick(0, 3), vf::Pick(0, 16)};
      const int n = vf::Pick(2, 10);
      if (vf::Pick(0, 5) == 0) {
        // one case in five has the shape in which the FIFO clause is observable: FIFO option, one worker, waiting lock
        // forms only, no UnlockOn (measured: 0.8 % of the cases without this bias)
        c.hdr[0] = 2 + vf::Pick(0, 2);
        c.hdr[2] = 0;
        for (int i = 0; i < n; ++i) {
          c.prog.push_back(vf::Pick(0, 4));
          c.prog.push_back(vf::Pick(0, 3));
          static const int kUn[] = {0, 2, 3, 4};
          c.prog.push_back(kUn[vf::Pick(0, 4)]);
          c.prog.push_back(vf::Pick(0, 3) == 0 ? 1 : 0);
        }
        c.tape = *vf::GenTape(500);
        return c;
      }
      for (int i = 0; i < n; ++i) {
        c.prog.push_back(vf::Pick(0, 4));
        // lock form (taken modulo 6 for Mutex, modulo 5 for SharedMutex): 0..5 directly, the rest alias the Try and the
        // deferred-guard forms so that those make up about half of the rounds
        {
          static const int kAlias[] = {0, 1, 2, 3, 4, 5, 3, 2, 33, 5, 35, 4};  // 33 % 6 = 3, 33 % 5 = 3; 35 % 6 = 5, 35 % 5 = 0
          c.prog.push_back(kAlias[vf::Pick(0, 12)]);
        }
        c.prog.push_back(vf::Pick(0, 5));
        c.prog.push_back(vf::Pick(0, 3) == 0 ? 1 : 0);
      }
      c.tape = *vf::GenTape(500);
      return c;
    });
  }
  std::vector<Case> DfsPrograms(int tier) const final {
    std::vector<Case> out;
    for (int opts = 0; opts < 4; ++opts) {
      for (int form = 0; form < (tier == 0 ? 2 : 5); ++form) {
        Case c;
        c.recw = 4;
        c.hdr = {opts, 0, 0, 1};  // 2 coroutines, 1 worker
        c.prog = {0, form, form, 1, 1, (form + 1) % 5, 2, 0};
        out.push_back(c);
      }
    }
    return out;
  }
  std::string Describe(const Case& c) const final {
    const Decoded d = DecodeCase(c);
    std::string s = std::string(_shared ? "SharedMutex<FIFO=" : "Mutex<Batching=") + ((d.opts & 1) != 0 ? "true" : "false") +
                    (_shared ? ",ReadersFIFO=" : ",FIFO=") + ((d.opts & 2) != 0 ? "true" : "false") + "> coroutines=" +
                    std::to_string(d.k) + " workers=" + std::to_string(d.n) + " rounds=[";
    for (std::size_t i = 0; i < d.rounds.size(); ++i) {
      s += _shared ? (((d.writers_mask >> i) & 1) != 0 || i == 0 ? "W{" : "R{") : "c{";
      for (auto& r : d.rounds[i]) {
        if (_shared) {
          s += std::string(kRwName[r.lock % kRwFormN]) + (r.yield_inside != 0 ? "+yield " : " ");
        } else {
          s += std::string(kLockName[r.lock % kLockFormN]) + "/" + kUnlockName[r.unlock % kUnlockFormN] +
               (r.yield_inside != 0 ? "+yield " : " ");
        }
      }
      s += "} ";
    }
    return s + "] tape_len=" + std::to_string(c.tape.size());
  }
  Verdict Run(const Case& c, Explorer& ex) final {
    Verdict v;
    vf::TheHost().Run([&] {
      const Decoded d = DecodeCase(c);
      if (_shared) {
        switch (d.opts) {
          case 0:
            RunShared<false, false>(c, d, ex, v);
            break;
          case 1:
            RunShared<true, false>(c, d, ex, v);
            break;
          case 2:
            RunShared<false, true>(c, d, ex, v);
            break;
          default:
            RunShared<true, true>(c, d, ex, v);
        }
      } else {
        switch (d.opts) {
          case 0:
            RunMutex<false, false>(c, d, ex, v);
            break;
          case 1:
            RunMutex<true, false>(c, d, ex, v);
            break;
          case 2:
            RunMutex<false, true>(c, d, ex, v);
            break;
          default:
            RunMutex<true, true>(c, d, ex, v);
        }
      }
    });
    return v;
  }

 private:
  template <bool B, bool F>
  void RunMutex(const Case& c, const Decoded& d, Explorer& ex, Verdict& v) {
    MCtx cx;
    int total = 0;
    const bool done = vf::RunFibers(ex, [&] {
      yaclib::FairThreadPool tp{static_cast<std::uint64_t>(d.n)};
      yaclib::FairThreadPool other{1};
      {
        yaclib::Mutex<B, F> m;
        std::vector<yaclib::Future<>> fs;
        for (int i = 0; i < d.k; ++i) {
          auto rounds = d.rounds[static_cast<std::size_t>(i)];
          for (auto& r : rounds) {
            r.lock %= kLockFormN;
            r.unlock %= kUnlockFormN;
          }
          total += static_cast<int>(rounds.size());
          fs.push_back(MutexWorker<B, F>(tp, other, m, cx, i, std::move(rounds)));
        }
        yaclib::Wait(fs.begin(), fs.end());
        for (auto& f : fs) {
          if (!std::move(f).Get()) {
            cx.Err("a coroutine using the mutex completed with a failure");
          }
        }
      }
      tp.Stop();
      other.Stop();
      tp.Wait();
      other.Wait();
    });
    v.inconclusive = ex.over_budget;
    if (!done) {
      v.Fail("deadlock: a Lock/Guard request was never granted although every holder released (lost wake-up)");
    } else if (cx.err != nullptr) {
      v.Fail(cx.err);
    } else if (cx.finished != d.k || cx.cs + cx.given_up != total) {
      v.Fail("not every lock request was granted exactly once");
    } else if (F && d.n == 1 && cx.fifo_observable && cx.arrivals != cx.grants) {
      v.Fail("FIFO mutex on a single worker: grant order differs from arrival order");
    }
    v.nontrivial = cx.contended > 0;
    v.hash = vf::Mix64(c.ProgHash(), ex.trace_hash);
    v.tags.push_back(d.n == 1 ? "single-worker" : "multi-worker");
    if (F && d.n == 1 && cx.fifo_observable) {
      v.tags.push_back("fifo-order-checked");
    }
    {
      unsigned lf = 0, uf = 0;
      for (const auto& rs : d.rounds) {
        for (const auto& r : rs) {
          lf |= 1u << (r.lock % kLockFormN);
          uf |= 1u << (r.unlock % kUnlockFormN);
        }
      }
      for (int k = 0; k < kLockFormN; ++k) {
        if ((lf >> k) & 1u) {
          v.tags.push_back(vf::Intern(std::string("lock:") + kLockName[k]));
        }
      }
      for (int k = 0; k < kUnlockFormN; ++k) {
        if ((uf >> k) & 1u) {
          v.tags.push_back(vf::Intern(std::string("unlock:") + kUnlockName[k]));
        }
      }
      if (cx.given_up > 0) {
        v.tags.push_back("guard-given-up-without-lock");
      }
    }
    char b[96];
    std::snprintf(b, sizeof b, "critical_sections=%d contended=%d switches=%u", cx.cs, cx.contended, ex.switches);
    v.detail = b;
  }

  template <bool F, bool RF>
  void RunShared(const Case& c, const Decoded& d, Explorer& ex, Verdict& v) {
    SCtx cx;
    const bool done = vf::RunFibers(ex, [&] {
      yaclib::FairThreadPool tp{static_cast<std::uint64_t>(d.n)};
      {
        yaclib::SharedMutex<F, RF> m;
        std::vector<yaclib::Future<>> fs;
        for (int i = 0; i < d.k; ++i) {
          const bool writer = i == 0 || ((d.writers_mask >> i) & 1) != 0;
          fs.push_back(RWWorker<F, RF>(tp, m, cx, writer, d.rounds[static_cast<std::size_t>(i)]));
        }
        yaclib::Wait(fs.begin(), fs.end());
        for (auto& f : fs) {
          if (!std::move(f).Get()) {
            cx.Err("a coroutine using the shared mutex completed with a failure");
          }
        }
      }
      tp.Stop();
      tp.Wait();
    });
    v.inconclusive = ex.over_budget;
    if (!done) {
      v.Fail("deadlock: a reader or writer stayed parked although every holder released");
    } else if (cx.err != nullptr) {
      v.Fail(cx.err);
    } else if (cx.finished != d.k) {
      v.Fail("not every coroutine finished");
    }
    v.nontrivial = cx.contended > 0;
    v.hash = vf::Mix64(c.ProgHash(), ex.trace_hash);
    v.tags.push_back(d.n == 1 ? "single-worker" : "multi-worker");
    {
      unsigned lf = 0;
      for (const auto& rs : d.rounds) {
        for (const auto& r : rs) {
          lf |= 1u << (r.lock % kRwFormN);
        }
      }
      for (int k = 0; k < kRwFormN; ++k) {
        if ((lf >> k) & 1u) {
          v.tags.push_back(vf::Intern(std::string("form:") + kRwName[k]));
        }
      }
    }
    char b[96];
    std::snprintf(b, sizeof b, "writes=%ld contended=%d switches=%u", cx.writes, cx.contended, ex.switches);
    v.detail = b;
  }
  bool _shared;
};

}  // namespace

int main(int argc, char** argv) {
  CoMutex m{false};
  CoMutex s{true};
  vf::Driver d{{&m, &s}};
  return d.Main(argc, argv);
}
