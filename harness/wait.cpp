// C11 Wait / WaitFor / WaitUntil and C16 WaitGroup / OneShotEvent under explorer schedules and the virtual clock.
#include "common/driver.hpp"
#include "common/fibers.hpp"
#include "common/host.hpp"
#include "common/testexec.hpp"
#include "common/tracked.hpp"

#include <yaclib/algo/one_shot_event.hpp>
#include <yaclib/algo/wait_group.hpp>
#include <yaclib/async/contract.hpp>
#include <yaclib/async/shared_contract.hpp>
#include <yaclib/async/wait.hpp>
#include <yaclib/async/wait_for.hpp>
#include <yaclib/async/wait_until.hpp>
#include <yaclib/coro/await.hpp>
#include <yaclib/coro/future.hpp>
#include <yaclib/coro/on.hpp>
#include <yaclib_std/chrono>

#include <algorithm>
#include <chrono>
#include <cstdio>
#include <string>
#include <vector>

namespace {

using vf::Case;
using vf::Explorer;
using vf::Pay;
using vf::Verdict;
using Clock = yaclib_std::chrono::steady_clock;

// ---------------------------------------------------------------------------------------------------------------
// Event type handed to Wait*/WaitFor/WaitUntil through their public template parameter: flags any use after the
// waiting call destroyed it (independent of ASan's stack-use-after-return detection, which is also on).
struct EventRegistry {
  std::vector<const void*> alive;
  const char* err = nullptr;
  void Reset() {
    alive.clear();
    err = nullptr;
  }
  bool IsAlive(const void* p) const {
    return std::find(alive.begin(), alive.end(), p) != alive.end();
  }
};
EventRegistry& ER() {
  static EventRegistry r;
  return r;
}
struct TEvent : yaclib::detail::MutexEvent {
  TEvent() {
    ER().alive.push_back(this);
  }
  ~TEvent() {
    auto& a = ER().alive;
    a.erase(std::remove(a.begin(), a.end(), static_cast<const void*>(this)), a.end());
    // (no check that no completion is still syntactically inside Set(): after it released the event's mutex the
    //  setter only runs the wrapper's trailing injection point and touches the event no more - a first version of this
    //  clause raised a false alarm; touches of a dead event inside Set() are caught by ASan stack-use-after-return)
  }
  void Set() noexcept {
    if (!ER().IsAlive(this)) {
      ER().err = "a completion touched the waiter's event after the wait call returned";
      return;
    }
    ++in_set;
    yaclib::detail::MutexEvent::Set();
    if (ER().IsAlive(this)) {
      --in_set;
    }
  }
  int in_set = 0;
};

enum WaitForm { kVariadic, kIterEnd, kIterCount, kWaitFormN };
enum WaitKind { kWait, kWaitFor, kWaitUntil, kWaitKindN };
enum Follow { kGet, kDetachInline, kWaitTouch, kThenInline, kWaitForAgain, kFollowN };
const char* const kWaitKindName[] = {"Wait", "WaitFor", "WaitUntil"};
const char* const kWaitFormName[] = {"variadic", "iterator(begin,end)", "iterator(begin,count)"};
const char* const kFollowName[] = {"Get", "DetachInline", "Wait+Touch", "ThenInline+Get", "WaitFor(again)+Get"};

struct WCtx {
  const char* err = nullptr;
  void Err(const char* e) {
    if (err == nullptr) {
      err = e;
    }
  }
};

template <typename... F>
bool DoWait(int kind, std::chrono::nanoseconds d, Clock::time_point deadline, F&... fs) {
  if (kind == kWait) {
    yaclib::Wait<TEvent>(fs...);
    return true;
  }
  if constexpr ((... && yaclib::is_waitable_with_timeout_v<F>)) {
    if (kind == kWaitFor) {
      return yaclib::WaitFor<TEvent>(d, fs...);
    }
    return yaclib::WaitUntil<TEvent>(deadline, fs...);
  } else {
    return true;  // timed waits are not offered for shared futures
  }
}
template <typename It>
bool DoWaitIt(int kind, int form, std::chrono::nanoseconds d, Clock::time_point deadline, It b, std::size_t n) {
  constexpr bool kTimed = yaclib::is_waitable_with_timeout_v<typename std::iterator_traits<It>::value_type>;
  if (form == kIterEnd) {
    if (kind == kWait) {
      yaclib::Wait<TEvent>(b, b + static_cast<std::ptrdiff_t>(n));
      return true;
    }
    if constexpr (kTimed) {
      if (kind == kWaitFor) {
        return yaclib::WaitFor<TEvent>(d, b, b + static_cast<std::ptrdiff_t>(n));
      }
      return yaclib::WaitUntil<TEvent>(deadline, b, b + static_cast<std::ptrdiff_t>(n));
    }
    return true;
  }
  if (kind == kWait) {
    yaclib::Wait<TEvent>(b, n);
    return true;
  }
  if constexpr (kTimed) {
    if (kind == kWaitFor) {
      return yaclib::WaitFor<TEvent>(d, b, n);
    }
    return yaclib::WaitUntil<TEvent>(deadline, b, n);
  }
  return true;
}

struct WaitDecoded {
  int n, kind, form, shared, tick, timeout;
  std::vector<int> delay, follow;
};

class WaitFamily final : public vf::Family {
 public:
  const char* Name() const final {
    return "wait";
  }
  const char* Property() const final {
    return "C11";
  }
  const char* Rule() const final {
    return "case = 1..3 futures (unique; shared or mixed for the untimed form) x {Wait, WaitFor, WaitUntil} x {single / "
           "variadic, iterator(begin,end), iterator(begin,count)} x producer delays and deadline on the virtual clock "
           "(before / between / after the completions) x tick length x follow-up per future (Get, DetachInline, "
           "Wait+Touch, ThenInline, second WaitFor) x schedule tape; oracle = true => every future Ready (and its Set "
           "had begun), false => virtual now >= deadline, every future then delivers its value exactly once to the "
           "follow-up, the waiter's Event (template parameter) is never touched after the call returned (registry + "
           "ASan stack-use-after-return), no parked fiber; non-trivial = the wait had to park and a completion or the "
           "deadline ended it (some future was not ready at entry); distinct = (program, fiber trace)";
  }
  WaitDecoded Decode(const Case& c) const {
    WaitDecoded d{};
    d.n = 1 + c.H(0) % 3;
    d.kind = c.H(1) % kWaitKindN;
    d.form = c.H(2) % kWaitFormN;
    d.shared = d.kind == kWait ? c.H(3) % 3 : 0;  // 0 unique, 1 all shared, 2 mixed (variadic only)
    if (d.shared == 2 && (d.form != kVariadic || d.n < 2)) {
      d.shared = 1;
    }
    d.tick = 1 + c.H(4) % 30;
    d.timeout = (c.H(5) % 8) * 90;
    for (int i = 0; i < d.n; ++i) {
      d.delay.push_back((c.H(static_cast<std::size_t>(6 + i)) % 6) * 120);
      d.follow.push_back(c.H(static_cast<std::size_t>(9 + i)) % kFollowN);
    }
    return d;
  }
#ifndef VF_NO_RC
  rc::Gen<Case> Gen() const final {
    return rc::gen::exec([]() {
      Case c;
      c.hdr = {vf::Pick(0, 3), vf::Pick(0, 3), vf::Pick(0, 3), vf::Pick(0, 3), vf::Pick(0, 30), vf::Pick(0, 8),
               vf::Pick(0, 6), vf::Pick(0, 6), vf::Pick(0, 6), vf::Pick(0, 5), vf::Pick(0, 5), vf::Pick(0, 5)};
      c.tape = *vf::GenTape(300);
      return c;
    });
  }
#endif
  std::vector<Case> DfsPrograms(int tier) const final {
    std::vector<Case> out;
    for (int kind = 0; kind < kWaitKindN; ++kind) {
      for (int n = 0; n < (tier == 0 ? 2 : 3); ++n) {
        for (int to = 0; to < 3; ++to) {
          Case c;
          c.hdr = {n, kind, n == 0 ? 0 : 1, 0, 9, to * 2, 1, 1, 1, 0, 1, 2};  // producer delay 120ns, deadline 0/180/360
          out.push_back(c);
        }
      }
    }
    return out;
  }
  std::string Describe(const Case& c) const final {
    const WaitDecoded d = Decode(c);
    std::string s = std::string(kWaitKindName[d.kind]) + " form=" + kWaitFormName[d.form] + " n=" + std::to_string(d.n) +
                    " inputs=" + (d.shared == 0 ? "unique" : d.shared == 1 ? "shared" : "mixed") +
                    " tick=" + std::to_string(d.tick) + " timeout_ns=" + std::to_string(d.timeout) + " producer_delays=[";
    for (int x : d.delay) {
      s += std::to_string(x) + " ";
    }
    s += "] follow=[";
    for (int x : d.follow) {
      s += std::string(kFollowName[x]) + " ";
    }
    return s + "] tape_len=" + std::to_string(c.tape.size());
  }
  Verdict Run(const Case& c, Explorer& ex) final {
    Verdict v;
    vf::TheHost().Run([&] { RunOnHost(c, ex, v); });
    return v;
  }

 private:
  void RunOnHost(const Case& c, Explorer& ex, Verdict& v) {
    const WaitDecoded d = Decode(c);
    yaclib::fiber::SetFaultTickLength(static_cast<std::uint32_t>(d.tick));
    yaclib::SetFaultSleepTime(static_cast<std::uint32_t>(1 + c.H(4) % 40));
    WCtx cx;
    ER().Reset();
    vf::TS().Reset();
    bool parked_possible = false, returned = true;
    const bool done = vf::RunFibers(ex, [&] {
      using FU = yaclib::Future<Pay>;
      using FS = yaclib::SharedFuture<Pay>;
      const auto n = static_cast<std::size_t>(d.n);
      std::vector<FU> fu(n);
      std::vector<FS> fs(n);
      std::vector<yaclib::Promise<Pay>> pu(n);
      std::vector<yaclib::SharedPromise<Pay>> ps(n);
      std::vector<int> is_shared(n, 0), set_begun(n, 0), set_done(n, 0);
      for (std::size_t i = 0; i < n; ++i) {
        is_shared[i] = d.shared == 1 || (d.shared == 2 && i % 2 == 1);
        if (is_shared[i]) {
          auto [f, p] = yaclib::MakeSharedContract<Pay>();
          fs[i] = std::move(f);
          ps[i] = std::move(p);
        } else {
          auto [f, p] = yaclib::MakeContract<Pay>();
          fu[i] = std::move(f);
          pu[i] = std::move(p);
        }
      }
      std::vector<yaclib_std::thread> ts;
      ts.reserve(n);
      for (std::size_t i = 0; i < n; ++i) {
        ts.emplace_back([&, i, p = std::move(pu[i]), sp = std::move(ps[i])]() mutable {
          yaclib_std::this_thread::sleep_for(std::chrono::nanoseconds(d.delay[i]));
          vf::Point();
          set_begun[i] = 1;
          if (is_shared[i]) {
            std::move(sp).Set(Pay{10 + static_cast<int>(i)});
          } else {
            std::move(p).Set(Pay{10 + static_cast<int>(i)});
          }
          set_done[i] = 1;
        });
      }
      vf::Point();
      for (std::size_t i = 0; i < n; ++i) {
        parked_possible |= set_done[i] == 0;
      }
      const auto start = Clock::now();
      const auto dur = std::chrono::nanoseconds(d.timeout);
      const auto deadline = start + dur;
      bool r = true;
      if (d.shared == 1) {
        if (d.form == kVariadic) {
          r = n == 1 ? DoWait(kWait, dur, deadline, fs[0]) : n == 2 ? DoWait(kWait, dur, deadline, fs[0], fs[1])
                                                                   : DoWait(kWait, dur, deadline, fs[0], fs[1], fs[2]);
        } else {
          r = DoWaitIt(kWait, d.form, dur, deadline, fs.begin(), n);
        }
      } else if (d.shared == 2) {
        r = n == 2 ? DoWait(kWait, dur, deadline, fu[0], fs[1]) : DoWait(kWait, dur, deadline, fu[0], fs[1], fu[2]);
      } else if (d.form == kVariadic) {
        r = n == 1 ? DoWait(d.kind, dur, deadline, fu[0]) : n == 2 ? DoWait(d.kind, dur, deadline, fu[0], fu[1])
                                                                  : DoWait(d.kind, dur, deadline, fu[0], fu[1], fu[2]);
      } else {
        r = DoWaitIt(d.kind, d.form, dur, deadline, fu.begin(), n);
      }
      returned = r;
      const auto now = Clock::now();
      if (r) {
        for (std::size_t i = 0; i < n; ++i) {
          const bool ready = is_shared[i] ? fs[i].Ready() : fu[i].Ready();
          if (!ready) {
            cx.Err("wait returned (true) but a future is not Ready");
          } else if (!set_begun[i]) {
            cx.Err("wait returned (true) but a producer has not even begun to Set");
          }
        }
      } else if (d.kind == kWait) {
        cx.Err("untimed Wait reported a timeout");
      } else if (now < deadline) {
        cx.Err("timed wait returned false before the deadline passed");
      }
      // follow-ups: every future still delivers its value exactly once
      std::vector<int> got(n, 0), val(n, -1);
      std::vector<yaclib::Future<int>> chained(n);
      for (std::size_t i = 0; i < n && cx.err == nullptr; ++i) {
        vf::Point();
        if (is_shared[i]) {
          const auto& res = fs[i].Get();
          ++got[i];
          val[i] = res ? res.Value().Read() : -2;
          continue;
        }
        switch (d.follow[i]) {
          case kGet: {
            auto res = std::move(fu[i]).Get();
            ++got[i];
            val[i] = res ? std::as_const(res).Value().Read() : -2;
            break;
          }
          case kDetachInline:
            std::move(fu[i]).DetachInline([&got, &val, i](yaclib::Result<Pay>&& res) {
              ++got[i];
              val[i] = res ? std::as_const(res).Value().Read() : -2;
            });
            break;
          case kWaitTouch: {
            yaclib::Wait<TEvent>(fu[i]);
            if (!fu[i].Ready()) {
              cx.Err("second Wait returned but the future is not Ready");
              break;
            }
            ++got[i];
            const auto& res = std::as_const(fu[i]).Touch();
            val[i] = res ? res.Value().Read() : -2;
            break;
          }
          case kThenInline:
            chained[i] = std::move(fu[i]).ThenInline([&got, &val, i](yaclib::Result<Pay>&& res) {
              ++got[i];
              val[i] = res ? std::as_const(res).Value().Read() : -2;
              return 1;
            });
            break;
          default: {
            const auto s2 = Clock::now();
            const auto d2 = std::chrono::nanoseconds(60);
            const bool r2 = yaclib::WaitFor<TEvent>(d2, fu[i]);
            if (r2 && !fu[i].Ready()) {
              cx.Err("second WaitFor returned true but the future is not Ready");
            } else if (!r2 && Clock::now() - s2 < d2) {
              cx.Err("second WaitFor returned false before its deadline");
            }
            auto res = std::move(fu[i]).Get();
            ++got[i];
            val[i] = res ? std::as_const(res).Value().Read() : -2;
          }
        }
      }
      for (auto& t : ts) {
        t.join();
      }
      for (std::size_t i = 0; i < n && cx.err == nullptr; ++i) {
        if (chained[i].Valid()) {
          auto rr = std::move(chained[i]).Get();
          if (!rr || std::move(rr).Ok() != 1) {
            cx.Err("ThenInline after the wait lost its return value");
          }
        }
        if (got[i] != 1) {
          cx.Err(got[i] == 0 ? "a future no longer delivers its result after the wait (result lost)"
                             : "a future delivered its result twice after the wait");
        } else if (val[i] != 10 + static_cast<int>(i)) {
          cx.Err("follow-up received a wrong value");
        }
      }
    });
    v.inconclusive = ex.over_budget;
    if (!done) {
      v.Fail("deadlock: the waiter or a follow-up never finished (completion lost)");
    } else if (cx.err != nullptr) {
      v.Fail(cx.err);
    } else if (ER().err != nullptr) {
      v.Fail(ER().err);
    } else if (vf::TS().err != nullptr) {
      v.Fail(vf::TS().err);
    } else if (vf::TS().Live() != 0) {
      v.Fail("payload objects constructed != destroyed at quiescence");
    }
    v.nontrivial = parked_possible;
    v.hash = vf::Mix64(c.ProgHash(), ex.trace_hash);
    v.tags.push_back(kWaitKindName[d.kind]);
    if (!returned) {
      v.tags.push_back("timed-out");
    }
    char b[96];
    std::snprintf(b, sizeof b, "returned=%d switches=%u", returned ? 1 : 0, ex.switches);
    v.detail = b;
  }
};

// ---------------------------------------------------------------------------------------------------------------
// C16
struct GCtx {
  int outstanding = 0;  // harness count: decremented BEFORE each Done / completion, incremented BEFORE each Add
  int released = 0, expected_release = 0;
  const char* err = nullptr;
  bool zero_reached = false;
  int waiter_during_last_done = 0;
  int waiters_registered = 0;
  void Err(const char* e) {
    if (err == nullptr) {
      err = e;
    }
  }
  void Released(const char* who) {
    ++released;
    if (outstanding != 0) {
      Err(who);
    }
  }
};

yaclib::Future<> CoWaiter(yaclib::WaitGroup<>& wg, GCtx& cx, int kind, vf::QueueExec& e) {
  if (kind == 1) {
    co_await On(e);  // the coroutine's own executor becomes e
    co_await wg.AwaitSticky();
    if (vf::CurrentExecTag() != 2) {
      cx.Err("AwaitSticky resumed outside the coroutine's own executor");
    }
  } else if (kind == 2) {
    co_await wg.AwaitOn(e);
    if (vf::CurrentExecTag() != 2) {
      cx.Err("AwaitOn(e) resumed outside e");
    }
  } else {
    co_await wg;
  }
  cx.Released("co_await on the WaitGroup resumed while operations were outstanding");
  co_return{};
}

struct EvJob final : yaclib::Job {
  int calls = 0;
  bool* set_begun = nullptr;
  const char** err = nullptr;
  void Call() noexcept final {
    ++calls;
    if (!*set_begun && *err == nullptr) {
      *err = "OneShotEvent called a job before Set/Call began";
    }
  }
  void Drop() noexcept final {
  }
};

yaclib::Future<> CoEvent(yaclib::OneShotEvent& ev, GCtx& cx, bool* set_begun, int kind, vf::QueueExec& e) {
  if (kind == 1) {
    co_await On(e);
    co_await ev.AwaitSticky();
  } else if (kind == 2) {
    co_await ev.AwaitOn(e);
    if (vf::CurrentExecTag() != 2) {
      cx.Err("OneShotEvent::AwaitOn(e) resumed outside e");
    }
  } else {
    co_await ev;
  }
  ++cx.released;
  if (!*set_begun) {
    cx.Err("co_await on the OneShotEvent resumed before Set began");
  }
  co_return{};
}

class GroupFamily final : public vf::Family {
 public:
  const char* Name() const final {
    return "waitgroup";
  }
  const char* Property() const final {
    return "C16";
  }
  const char* Rule() const final {
    return "case = WaitGroup history: 0..3 token-holding worker fibers doing Add/Done (Add only while holding a token), "
           "0..3 futures Attach-ed or Consume-d (variadic or iterator form) and completed by producer fibers, 0..4 "
           "waiters of kinds {Wait, WaitFor, WaitUntil on the virtual clock, co_await inline / sticky / on(e)} started "
           "before, during or after the last Done | OneShotEvent history: Set after a delay, waiters {Wait, WaitFor, "
           "TryAdd(job), co_await inline/sticky/on}, optional Reset and second round; x schedule tape; oracle = harness "
           "counter decremented before each Done/completion so a released waiter must see 0, every waiter released "
           "exactly once and none parked, timed false => deadline passed, attached futures not Ready before their Set "
           "began / Ready with their value afterwards, consumed payloads destroyed once; non-trivial = a waiter was "
           "registered (blocked or suspended) before the count reached zero; distinct = (program, fiber trace)";
  }
#ifndef VF_NO_RC
  rc::Gen<Case> Gen() const final {
    return rc::gen::exec([]() {
      Case c;
      c.recw = 2;
      c.hdr = {vf::Pick(0, 4), vf::Pick(0, 4), vf::Pick(0, 4), vf::Pick(0, 16), vf::Pick(0, 6), vf::Pick(0, 30), vf::Pick(0, 8)};
      const int waiters = vf::Pick(0, 5);
      for (int i = 0; i < waiters; ++i) {
        c.prog.push_back(vf::Pick(0, 6));
        c.prog.push_back(vf::Pick(0, 6));
      }
      c.tape = *vf::GenTape(400);
      return c;
    });
  }
#endif
  std::vector<Case> DfsPrograms(int tier) const final {
    std::vector<Case> out;
    for (int mode = 0; mode < 2; ++mode) {
      for (int wk = 0; wk < (tier == 0 ? 3 : 6); ++wk) {
        Case c;
        c.recw = 2;
        c.hdr = {mode == 0 ? 0 : 3, 1, 1, 1, 1, 9, 2};
        c.prog = {wk, 1};
        out.push_back(c);
      }
    }
    return out;
  }
  std::string Describe(const Case& c) const final {
    static const char* const kW[] = {"Wait", "WaitFor", "WaitUntil", "co_await", "co_await sticky", "co_await on(e)"};
    std::string s = c.H(0) % 4 == 3 ? "OneShotEvent" : "WaitGroup";
    s += " workers=" + std::to_string(c.H(1) % 4) + " futures=" + std::to_string(c.H(2) % 4) + " consume_mask=" +
         std::to_string(c.H(3) % 16) + " form=" + std::to_string(c.H(4) % 6) + " tick=" + std::to_string(1 + c.H(5) % 30) +
         " waiters=[";
    for (std::size_t i = 0; i < c.Records(); ++i) {
      s += std::string(kW[c.Rec(i)[0] % 6]) + "/" + std::to_string(c.Rec(i)[1] % 6) + " ";
    }
    return s + "] tape_len=" + std::to_string(c.tape.size());
  }
  Verdict Run(const Case& c, Explorer& ex) final {
    Verdict v;
    vf::TheHost().Run([&] {
      if (c.H(0) % 4 == 3) {
        RunEvent(c, ex, v);
      } else {
        RunGroup(c, ex, v);
      }
    });
    return v;
  }

 private:
  static void WaiterBody(yaclib::WaitGroup<>& wg, GCtx& cx, int kind, int par) {
    vf::Point();
    ++cx.waiters_registered;
    if (!cx.zero_reached) {
      ++cx.waiter_during_last_done;
    }
    if (kind == 1 || kind == 2) {
      const auto s = Clock::now();
      const auto d = std::chrono::nanoseconds(par * 80);
      const bool r = kind == 1 ? wg.WaitFor(d) : wg.WaitUntil(s + d);
      if (r) {
        cx.Released("timed wait on the WaitGroup returned true while operations were outstanding");
      } else {
        if (Clock::now() - s < d) {
          cx.Err("timed wait on the WaitGroup returned false before its deadline");
        }
        wg.Wait();
        cx.Released("Wait (after a timed-out wait) returned while operations were outstanding");
      }
    } else {
      wg.Wait();
      cx.Released("Wait returned while operations were outstanding");
    }
  }

  void RunGroup(const Case& c, Explorer& ex, Verdict& v) {
    int workers = c.H(1) % 4, nfut = c.H(2) % 4;
    const int consume_mask = c.H(3), form = c.H(4) % 6;
    // zero-start batch: the group starts at 0 with no guard unit, a batch of >= 2 futures is attached in one call and
    // the waiters come afterwards (Add at zero is legal while nobody waits concurrently)
    const bool zero_start = c.H(0) % 4 == 2 && form <= 1;
    if (zero_start) {
      workers = 0;
      // exactly one batch call: once the count of a one-shot group has returned to zero, a further Attach without
      // Reset is outside the documented use (a first version attached a third future afterwards and crashed the
      // unchanged library in OneShotEvent::Set - generator error, not a defect)
      nfut = form == 0 ? 2 : 2 + nfut % 2;
    }
    yaclib::fiber::SetFaultTickLength(static_cast<std::uint32_t>(1 + c.H(5) % 30));
    yaclib::SetFaultSleepTime(static_cast<std::uint32_t>(1 + c.H(6) % 40));
    GCtx cx;
    vf::TS().Reset();
    const bool done = vf::RunFibers(ex, [&] {
      vf::QueueExec que{2};
      yaclib_std::thread server([&] { que.Serve(); });
      {
        yaclib::WaitGroup<> wg{zero_start ? std::size_t{0} : std::size_t{1}};
        cx.outstanding = zero_start ? 0 : 1;
        const auto nf = static_cast<std::size_t>(nfut);
        std::vector<yaclib::Future<Pay>> fs(nf);
        std::vector<yaclib::Promise<Pay>> ps(nf);
        for (std::size_t i = 0; i < nf; ++i) {
          auto [f, p] = yaclib::MakeContract<Pay>();
          fs[i] = std::move(f);
          ps[i] = std::move(p);
        }
        std::vector<int> attach_begun(nf, 0), set_begun(nf, 0), counted(nf, 0);
        std::vector<yaclib_std::thread> ts;
        std::vector<yaclib::Future<>> coros;
        for (int w = 0; w < workers; ++w) {
          ++cx.outstanding;
          wg.Add(1);  // main still holds its token
          ts.emplace_back([&, w] {
            vf::Point();
            if ((w & 1) != 0) {
              ++cx.outstanding;
              wg.Add(1);  // allowed: this worker still holds a token
              vf::Point();
              --cx.outstanding;
              wg.Done();
            }
            vf::Point();
            --cx.outstanding;
            if (cx.outstanding == 0) {
              cx.zero_reached = true;
            }
            wg.Done();
          });
        }
        for (std::size_t i = 0; i < nf; ++i) {
          ts.emplace_back([&, i, p = std::move(ps[i])]() mutable {
            vf::Point();
            set_begun[i] = 1;
            if (attach_begun[i] != 0 && counted[i] != 0) {
              --cx.outstanding;  // token returned at Set-begin (no later than the library's own Done)
              counted[i] = 0;
              if (cx.outstanding == 0) {
                cx.zero_reached = true;
              }
            }
            std::move(p).Set(Pay{static_cast<int>(i) + 7});
          });
        }
        // waiters
        auto start_waiters = [&] {
        for (std::size_t k = 0; k < c.Records(); ++k) {
          const int kind = c.Rec(k)[0] % 6, par = c.Rec(k)[1] % 6;
          ++cx.expected_release;
          if (kind >= 3) {
            ++cx.waiters_registered;
            if (!cx.zero_reached) {
              ++cx.waiter_during_last_done;
            }
            coros.push_back(CoWaiter(wg, cx, kind - 3, que));
          } else {
            ts.emplace_back([&, kind, par] { WaiterBody(wg, cx, kind, par); });
          }
          vf::Point();
        }
        };
        if (!zero_start) {
          start_waiters();
        }
        // attach / consume the futures (main holds a token, so the implicit Add is legal)
        auto attach_one = [&](std::size_t i) {
          attach_begun[i] = 1;
          if (set_begun[i] == 0) {
            ++cx.outstanding;  // token taken at attach-begin unless the Set had already begun
            counted[i] = 1;
          }
        };
        if (form == 0 && nf >= 2) {
          attach_one(0);
          attach_one(1);
          if ((consume_mask & 1) != 0) {
            wg.Consume(std::move(fs[0]), std::move(fs[1]));
          } else {
            wg.Attach(fs[0], fs[1]);
          }
          for (std::size_t i = 2; i < nf; ++i) {
            attach_one(i);
            if (((consume_mask >> i) & 1) != 0) {
              wg.Consume(std::move(fs[i]));
            } else {
              wg.Attach(fs[i]);
            }
          }
        } else if (form == 1 && nf >= 1) {
          for (std::size_t i = 0; i < nf; ++i) {
            attach_one(i);
          }
          if ((consume_mask & 1) != 0) {
            wg.Consume(fs.begin(), fs.end());
          } else {
            wg.Attach(fs.begin(), nf);
          }
        } else {
          for (std::size_t i = 0; i < nf; ++i) {
            attach_one(i);
            if (((consume_mask >> i) & 1) != 0) {
              wg.Consume(std::move(fs[i]));
            } else {
              wg.Attach(fs[i]);
              if (fs[i].Ready() && set_begun[i] == 0) {
                cx.Err("attached future is Ready before its producer began to Set");
              }
            }
            vf::Point();
          }
        }
        if (zero_start) {
          start_waiters();
        } else {
          --cx.outstanding;
          if (cx.outstanding == 0) {
            cx.zero_reached = true;
          }
          wg.Done();
        }
        wg.Wait();
        if (cx.outstanding != 0) {
          cx.Err("main Wait returned while operations were outstanding");
        }
        for (auto& t : ts) {
          t.join();
        }
        for (auto& co : coros) {
          (void)std::move(co).Get();
        }
        // late waiter: arrives after zero was reached, must be released at once
        wg.Wait();
        if (!wg.WaitFor(std::chrono::nanoseconds(0))) {
          cx.Err("WaitFor on a finished WaitGroup returned false");
        }
        // attached futures stay valid for their owner
        for (std::size_t i = 0; i < nf; ++i) {
          if (fs[i].Valid()) {
            if (!fs[i].Ready()) {
              cx.Err("attached future is not Ready although its producer finished");
            } else {
              auto r = std::move(fs[i]).Get();
              if (!r || std::as_const(r).Value().Read() != static_cast<int>(i) + 7) {
                cx.Err("attached future lost its value");
              }
            }
          }
        }
      }
      que.Stop();
      server.join();
    });
    Finish(c, ex, v, cx, done);
  }

  void RunEvent(const Case& c, Explorer& ex, Verdict& v) {
    yaclib::fiber::SetFaultTickLength(static_cast<std::uint32_t>(1 + c.H(5) % 30));
    yaclib::SetFaultSleepTime(static_cast<std::uint32_t>(1 + c.H(6) % 40));
    GCtx cx;
    vf::TS().Reset();
    const int rounds = 1 + c.H(1) % 2;
    const bool use_call = (c.H(2) & 1) != 0;  // Call() (re-armable) in the first round instead of Set()
    const bool done = vf::RunFibers(ex, [&] {
      vf::QueueExec que{2};
      yaclib_std::thread server([&] { que.Serve(); });
      {
        yaclib::OneShotEvent ev;
        for (int round = 0; round < rounds; ++round) {
          bool set_begun = false;
          const bool this_call = use_call && round == 0 && rounds == 2;
          std::vector<EvJob> jobs(c.Records());
          std::vector<yaclib_std::thread> ts;
          std::vector<yaclib::Future<>> coros;
          int released_before = cx.released;
          int expected = 0;
          std::vector<int> run_self(c.Records(), 0);
          for (std::size_t k = 0; k < c.Records(); ++k) {
            const int kind = c.Rec(k)[0] % 6, par = c.Rec(k)[1] % 6;
            if (this_call && kind != 2) {
              continue;  // Call() does not mark the event done: only TryAdd-ed jobs make sense in that round
            }
            if (!set_begun) {
              ++cx.waiter_during_last_done;
            }
            ++cx.waiters_registered;
            if (kind == 2) {  // TryAdd(job)
              jobs[k].set_begun = &set_begun;
              jobs[k].err = &cx.err;
              ts.emplace_back([&, k] {
                vf::Point();
                if (!ev.TryAdd(jobs[k])) {
                  if (!set_begun) {
                    cx.Err("TryAdd refused the job although Set had not begun");
                  }
                  run_self[k] = 1;
                }
              });
            } else if (kind >= 3) {
              ++expected;
              coros.push_back(CoEvent(ev, cx, &set_begun, kind - 3, que));
            } else {
              ++expected;
              ts.emplace_back([&, kind, par] {
                vf::Point();
                if (kind == 1) {
                  const auto s = Clock::now();
                  const auto d = std::chrono::nanoseconds(par * 80);
                  if (!ev.WaitFor(d)) {
                    if (Clock::now() - s < d) {
                      cx.Err("OneShotEvent::WaitFor returned false before its deadline");
                    }
                    ev.Wait();
                  }
                } else {
                  ev.Wait();
                }
                ++cx.released;
                if (!set_begun) {
                  cx.Err("OneShotEvent waiter released before Set began");
                }
              });
            }
            vf::Point();
          }
          for (int y = 0; y < c.H(3) % 6; ++y) {
            yaclib_std::this_thread::yield();
          }
          set_begun = true;
          if (this_call) {
            ev.Call();
          } else {
            ev.Set();
          }
          for (auto& t : ts) {
            t.join();
          }
          for (auto& co : coros) {
            (void)std::move(co).Get();
          }
          if (this_call) {
            // jobs added after Call() stay queued until the next Call/Set
            ev.Set();
          }
          for (std::size_t k = 0; k < c.Records(); ++k) {
            if (c.Rec(k)[0] % 6 == 2) {
              const int want = run_self[k] != 0 ? 0 : 1;
              if (jobs[k].calls != want) {
                cx.Err(jobs[k].calls < want ? "a job added with TryAdd()==true was never called"
                                            : "a TryAdd-ed job was called more than once (or although TryAdd failed)");
              }
            }
          }
          if (cx.released - released_before != expected) {
            cx.Err("not every OneShotEvent waiter was released exactly once");
          }
          if (!ev.Ready()) {
            cx.Err("OneShotEvent not Ready after Set");
          }
          ev.Wait();  // late waiter returns at once
          ev.Reset();
          if (ev.Ready()) {
            cx.Err("OneShotEvent still Ready after Reset");
          }
        }
      }
      que.Stop();
      server.join();
    });
    cx.expected_release = cx.released;
    Finish(c, ex, v, cx, done);
  }

  static void Finish(const Case& c, Explorer& ex, Verdict& v, GCtx& cx, bool done) {
    v.inconclusive = ex.over_budget;
    if (!done) {
      v.Fail("deadlock: a waiter stayed parked / suspended although the count reached zero (or Set was called)");
    } else if (cx.err != nullptr) {
      v.Fail(cx.err);
    } else if (cx.released != cx.expected_release) {
      v.Fail("not every waiter was released exactly once");
    } else if (vf::TS().err != nullptr) {
      v.Fail(vf::TS().err);
    } else if (vf::TS().Live() != 0) {
      v.Fail("consumed / attached payloads constructed != destroyed at quiescence");
    }
    v.nontrivial = cx.waiter_during_last_done > 0;
    v.hash = vf::Mix64(c.ProgHash(), ex.trace_hash);
    v.tags.push_back(c.H(0) % 4 == 3 ? "OneShotEvent" : "WaitGroup");
    {
      static const char* const kW[] = {"waiter:Wait", "waiter:WaitFor", "waiter:WaitUntil", "waiter:co_await", "waiter:co_await sticky",
                                       "waiter:co_await on(e)"};
      unsigned seen = 0;
      for (std::size_t i = 0; i < c.Records(); ++i) {
        seen |= 1u << (c.Rec(i)[0] % 6);
      }
      for (int k = 0; k < 6; ++k) {
        if ((seen >> k) & 1u) {
          v.tags.push_back(kW[k]);
        }
      }
      if (c.H(0) % 4 != 3) {
        if (c.H(2) % 4 != 0) {
          v.tags.push_back(c.H(3) % 16 != 0 ? "futures:attached+consumed" : "futures:attached");
        }
        if (c.H(1) % 4 != 0) {
          v.tags.push_back("Add/Done-workers");
        }
      }
    }
    char b[96];
    std::snprintf(b, sizeof b, "waiters=%d released=%d switches=%u", cx.waiters_registered, cx.released, ex.switches);
    v.detail = b;
  }
};

}  // namespace

int main(int argc, char** argv) {
  WaitFamily w;
  GroupFamily g;
  vf::Driver d{{&w, &g}};
  return d.Main(argc, argv);
}
