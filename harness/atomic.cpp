// C19: yaclib_std::atomic<T> / atomic_flag / fences compute exactly what std::atomic computes for one thread.
// The same source is built against the FIBER back end (cfg fib) and the THREAD wrapper (cfg thr); the public
// yaclib_std names are used. Model = std::atomic<T> driven by the same operation sequence, compared bitwise.
#include "common/driver.hpp"

#include <yaclib/fault/config.hpp>
#include <yaclib/fault/inject.hpp>
#include <yaclib_std/atomic>

#include <atomic>
#include <cmath>
#include <cstdint>
#include <cstring>
#include <limits>
#include <string>
#include <type_traits>

namespace {

using vf::Case;
using vf::Explorer;
using vf::Verdict;

#if YACLIB_FAULT == 2
constexpr const char* kFamily = "atomic_fiber";
constexpr const char* kBackend = "FIBER re-implementation";
#else
constexpr const char* kFamily = "atomic_thread";
constexpr const char* kBackend = "THREAD wrapper";
#endif

enum Op {
  kLoad,
  kStore,
  kExchange,
  kCasStrong1,
  kCasStrong2,
  kCasWeak1,
  kCasWeak2,
  kCasStrongCur,  // expected := current value, so the exchange succeeds
  kCasWeakCur,
  kAssign,
  kConvert,
  kFence,
  kFetchAdd,
  kFetchSub,
  kAddAssign,
  kSubAssign,
  kFetchAnd,
  kFetchOr,
  kFetchXor,
  kPreInc,
  kPostInc,
  kPreDec,
  kPostDec,
  kAndAssign,
  kOrAssign,
  kXorAssign,
  kOpN
};
const char* const kOpName[] = {"load",     "store",     "exchange",    "cas_strong(1)", "cas_strong(2)", "cas_weak(1)",
                               "cas_weak(2)", "cas_strong(cur)", "cas_weak(cur)", "operator=",   "operator T",    "fence",
                               "fetch_add", "fetch_sub", "+=",          "-=",            "fetch_and",     "fetch_or",
                               "fetch_xor", "++x",       "x++",         "--x",           "x--",           "&=",
                               "|=",        "^="};
const char* const kTypeName[] = {"bool",   "int8",   "uint8", "int16", "uint16", "int32", "uint32",
                                 "int64",  "uint64", "int*",  "float", "double", "atomic_flag"};
constexpr int kTypeN = 13;

template <typename T>
bool BitEq(T a, T b) {
  return std::memcmp(&a, &b, sizeof(T)) == 0;
}
// Result equality: bitwise, except that two NaNs are equal whatever their sign / payload - which NaN an arithmetic
// operation on two NaNs propagates depends on the operand order the compiler picks and is not specified (a clang -O1
// libFuzzer build of this very harness disagreed with the g++ build on `NaN += -NaN`; false alarm, corrected).
template <typename T>
bool SameValue(T a, T b) {
  if constexpr (std::is_floating_point_v<T>) {
    if (std::isnan(a) && std::isnan(b)) {
      return true;
    }
  }
  return BitEq<T>(a, b);
}

int gArr[64];

template <typename T>
T Operand(int sel, int raw) {
  const std::uint64_t h = vf::Mix64(static_cast<std::uint32_t>(raw), static_cast<std::uint32_t>(sel));
  if constexpr (std::is_same_v<T, bool>) {
    return (raw & 1) != 0;
  } else if constexpr (std::is_pointer_v<T>) {
    return &gArr[h % 64];
  } else if constexpr (std::is_floating_point_v<T>) {
    switch (sel % 12) {
      case 0:
        return T(0);
      case 1:
        return -T(0);
      case 2:
        return std::numeric_limits<T>::quiet_NaN();
      case 3:
        return std::numeric_limits<T>::infinity();
      case 4:
        return -std::numeric_limits<T>::infinity();
      case 5:
        return T(1);
      case 6:
        return std::numeric_limits<T>::denorm_min();
      case 7:
        return std::numeric_limits<T>::max();
      case 8:
        return -std::numeric_limits<T>::quiet_NaN();
      default:
        return static_cast<T>(static_cast<int>(h % 2001) - 1000) / T(8);
    }
  } else {
    using L = std::numeric_limits<T>;
    switch (sel % 12) {
      case 0:
        return T(0);
      case 1:
        return T(1);
      case 2:
        return static_cast<T>(-1);
      case 3:
        return L::max();
      case 4:
        return L::min();
      case 5:
        return static_cast<T>(T(1) << (sizeof(T) * 8 - 1));
      case 6:
        return static_cast<T>(L::max() - 1);
      case 7:
        return T(2);
      default:
        return static_cast<T>(h);
    }
  }
}

std::memory_order LoadOrder(int r) {
  static const std::memory_order k[] = {std::memory_order_seq_cst, std::memory_order_acquire,
                                        std::memory_order_relaxed, std::memory_order_consume};
  return k[static_cast<unsigned>(r) % 4];
}
std::memory_order StoreOrder(int r) {
  static const std::memory_order k[] = {std::memory_order_seq_cst, std::memory_order_release,
                                        std::memory_order_relaxed};
  return k[static_cast<unsigned>(r) % 3];
}
std::memory_order RmwOrder(int r) {
  static const std::memory_order k[] = {std::memory_order_seq_cst, std::memory_order_acq_rel,
                                        std::memory_order_acquire, std::memory_order_release,
                                        std::memory_order_relaxed};
  return k[static_cast<unsigned>(r) % 5];
}

struct SeqResult {
  const char* err = nullptr;
  int failed_at = -1;
  int rmw_changed = 0;
  int injected_weak_failures = 0;
  int ops = 0;
};

unsigned long gWeakTrue = 0;  // number of FailWeak() == true answers given by the hook so far

template <typename T>
void RunSeq(const Case& c, int mode, SeqResult& out) {
  const T init = Operand<T>(c.H(1), c.H(1) * 7 + 1);
  yaclib_std::atomic<T> a{init};
  std::atomic<T> m{init};
  auto fail = [&](int i, const char* e) {
    if (out.err == nullptr) {
      out.err = e;
      out.failed_at = i;
    }
  };
  for (std::size_t i = 0; i < c.Records() && out.err == nullptr; ++i) {
    const int* r = c.Rec(i);
    int op = r[0] % kOpN;
    const T x = Operand<T>(r[1], r[2]);
    const T y = Operand<T>(r[3], r[4]);
    const int ord = r[2] ^ r[4];
    T ra{}, rm{};
    bool ba = true, bm = true;
    bool compare_ret = true;
    const T before = m.load();
    ++out.ops;
    // ops not available for this T degrade to a plain load
    constexpr bool kArith = !std::is_same_v<T, bool>;
    constexpr bool kBits = std::is_integral_v<T> && !std::is_same_v<T, bool>;
    constexpr bool kIncDec = kBits || std::is_pointer_v<T>;
    if ((op >= kFetchAdd && op <= kSubAssign && !kArith) || (op >= kFetchAnd && op <= kFetchXor && !kBits) ||
        (op >= kPreInc && op <= kPostDec && !kIncDec) || (op >= kAndAssign && !kBits)) {
      op = kLoad;
    }
    switch (op) {
      case kLoad:
        ra = a.load(LoadOrder(ord));
        rm = m.load(LoadOrder(ord));
        break;
      case kStore:
        a.store(x, StoreOrder(ord));
        m.store(x, StoreOrder(ord));
        break;
      case kExchange:
        ra = a.exchange(x, RmwOrder(ord));
        rm = m.exchange(x, RmwOrder(ord));
        break;
      case kAssign:
#if YACLIB_FAULT == 2
        ra = (a = x);
        rm = (m = x);
#else
        // yaclib_std::atomic<T>::operator=(T) is hidden by the implicitly deleted copy assignment of the THREAD wrapper
        // (does not compile, see DESIGN.md); exercised as a store there
        a.store(x);
        m.store(x);
#endif
        break;
      case kConvert:
        ra = static_cast<T>(a);
        rm = static_cast<T>(m);
        break;
      case kFence:
        yaclib_std::atomic_thread_fence(RmwOrder(ord));
        yaclib_std::atomic_signal_fence(RmwOrder(ord));
        compare_ret = false;
        break;
      case kCasStrong1:
      case kCasStrong2:
      case kCasStrongCur: {
        T ea = op == kCasStrongCur ? before : x, em = ea;
        if (op == kCasStrong2) {
          ba = a.compare_exchange_strong(ea, y, RmwOrder(ord), LoadOrder(ord >> 3));
        } else {
          ba = a.compare_exchange_strong(ea, y, RmwOrder(ord));
        }
        bm = m.compare_exchange_strong(em, y);
        ra = ea;
        rm = em;
        if (op == kCasStrongCur && !ba) {
          fail(static_cast<int>(i), "compare_exchange_strong failed although expected held the current value");
        }
        break;
      }
      case kCasWeak1:
      case kCasWeak2:
      case kCasWeakCur: {
        T ea = op == kCasWeakCur ? before : x, em = ea;
        const unsigned long w0 = gWeakTrue;
        if (op == kCasWeak2) {
          ba = a.compare_exchange_weak(ea, y, RmwOrder(ord), LoadOrder(ord >> 3));
        } else {
          ba = a.compare_exchange_weak(ea, y, RmwOrder(ord));
        }
        const bool injected = mode == 1 || gWeakTrue != w0;
        if (injected) {
          // std contract of a spurious failure: returns false, expected := current value, nothing stored
          ++out.injected_weak_failures;
          if (ba) {
            fail(static_cast<int>(i), "injected spurious failure but compare_exchange_weak returned true");
          } else if (!BitEq<T>(ea, before)) {
            fail(static_cast<int>(i), "spurious compare_exchange_weak failure did not store the current value into expected");
          }
          compare_ret = false;  // the model is not stepped; stored value compared below
        } else {
          bm = m.compare_exchange_strong(em, y);
          ra = ea;
          rm = em;
        }
        break;
      }
      default:
        if constexpr (kArith) {
          using D = std::conditional_t<std::is_pointer_v<T>, std::ptrdiff_t, T>;
          D dx;
          if constexpr (std::is_pointer_v<T>) {
            dx = x - before;  // keeps the pointer inside gArr
            if (op == kFetchSub || op == kSubAssign) {
              dx = before - x;
            }
          } else {
            dx = x;
          }
          switch (op) {
            case kFetchAdd:
              ra = a.fetch_add(dx, RmwOrder(ord));
              rm = m.fetch_add(dx, RmwOrder(ord));
              break;
            case kFetchSub:
              ra = a.fetch_sub(dx, RmwOrder(ord));
              rm = m.fetch_sub(dx, RmwOrder(ord));
              break;
            case kAddAssign:
              ra = (a += dx);
              rm = (m += dx);
              break;
            case kSubAssign:
              ra = (a -= dx);
              rm = (m -= dx);
              break;
            default:
              if constexpr (kIncDec) {
                bool handled = true;
                if constexpr (std::is_pointer_v<T>) {
                  // stay inside the array
                  if ((op == kPreInc || op == kPostInc) && before == &gArr[63]) {
                    op = kPreDec;
                  } else if ((op == kPreDec || op == kPostDec) && before == &gArr[0]) {
                    op = kPreInc;
                  }
                }
                switch (op) {
                  case kPreInc:
                    ra = ++a;
                    rm = ++m;
                    break;
                  case kPostInc:
                    ra = a++;
                    rm = m++;
                    break;
                  case kPreDec:
                    ra = --a;
                    rm = --m;
                    break;
                  case kPostDec:
                    ra = a--;
                    rm = m--;
                    break;
                  default:
                    handled = false;
                }
                if constexpr (kBits) {
                  if (!handled) {
                    switch (op) {
                      case kFetchAnd:
                        ra = a.fetch_and(x, RmwOrder(ord));
                        rm = m.fetch_and(x, RmwOrder(ord));
                        break;
                      case kFetchOr:
                        ra = a.fetch_or(x, RmwOrder(ord));
                        rm = m.fetch_or(x, RmwOrder(ord));
                        break;
                      case kFetchXor:
                        ra = a.fetch_xor(x, RmwOrder(ord));
                        rm = m.fetch_xor(x, RmwOrder(ord));
                        break;
                      case kAndAssign:
                        ra = (a &= x);
                        rm = (m &= x);
                        break;
                      case kOrAssign:
                        ra = (a |= x);
                        rm = (m |= x);
                        break;
                      default:
                        ra = (a ^= x);
                        rm = (m ^= x);
                    }
                  }
                }
              }
          }
        }
    }
    const T after = m.load();
    if (op >= kExchange && op != kConvert && op != kFence && op != kAssign && !BitEq<T>(after, before)) {
      ++out.rmw_changed;
    }
    if (out.err != nullptr) {
      break;
    }
    if (compare_ret && (ba != bm || !SameValue<T>(ra, rm))) {
      if (std::getenv("VF_DEBUG") != nullptr) {
        std::fprintf(stderr, "op=%d ba=%d bm=%d ra=%lld rm=%lld\n", op, ba, bm, (long long)(std::uintptr_t)ra, (long long)(std::uintptr_t)rm);
      }
      fail(static_cast<int>(i), "return value (or expected after compare_exchange) differs from std::atomic");
    } else if (!SameValue<T>(a.load(), after)) {
      fail(static_cast<int>(i), "stored value differs from std::atomic after the operation");
    } else if (!BitEq<T>(a.load(), after)) {
      a.store(after);  // both NaN with different payloads: re-synchronise so that later bitwise CAS steps stay comparable
    }
  }
}

// The named aliases (yaclib_std::atomic_int, atomic_ptrdiff_t, ...) must denote the same value types as std's: the type
// of load() is compared (a differing signedness or width changes every sign- or width-sensitive result).
struct AliasRow {
  const char* name;
  bool same;
};
#define VF_ALIAS(name)                                                                  \
  AliasRow {                                                                            \
    #name, std::is_same_v<decltype(std::declval<yaclib_std::name&>().load()),           \
                          decltype(std::declval<std::name&>().load())>                  \
  }
const AliasRow kAliases[] = {
    VF_ALIAS(atomic_bool),
    VF_ALIAS(atomic_char),
    VF_ALIAS(atomic_schar),
    VF_ALIAS(atomic_uchar),
    VF_ALIAS(atomic_short),
    VF_ALIAS(atomic_ushort),
    VF_ALIAS(atomic_int),
    VF_ALIAS(atomic_uint),
    VF_ALIAS(atomic_long),
    VF_ALIAS(atomic_ulong),
    VF_ALIAS(atomic_llong),
    VF_ALIAS(atomic_ullong),
    VF_ALIAS(atomic_char16_t),
    VF_ALIAS(atomic_char32_t),
    VF_ALIAS(atomic_wchar_t),
    VF_ALIAS(atomic_int_least8_t),
    VF_ALIAS(atomic_uint_least8_t),
    VF_ALIAS(atomic_int_least16_t),
    VF_ALIAS(atomic_uint_least16_t),
    VF_ALIAS(atomic_int_least32_t),
    VF_ALIAS(atomic_uint_least32_t),
    VF_ALIAS(atomic_int_least64_t),
    VF_ALIAS(atomic_uint_least64_t),
    VF_ALIAS(atomic_int_fast8_t),
    VF_ALIAS(atomic_uint_fast8_t),
    VF_ALIAS(atomic_int_fast16_t),
    VF_ALIAS(atomic_uint_fast16_t),
    VF_ALIAS(atomic_int_fast32_t),
    VF_ALIAS(atomic_uint_fast32_t),
    VF_ALIAS(atomic_int_fast64_t),
    VF_ALIAS(atomic_uint_fast64_t),
    VF_ALIAS(atomic_int8_t),
    VF_ALIAS(atomic_uint8_t),
    VF_ALIAS(atomic_int16_t),
    VF_ALIAS(atomic_uint16_t),
    VF_ALIAS(atomic_int32_t),
    VF_ALIAS(atomic_uint32_t),
    VF_ALIAS(atomic_int64_t),
    VF_ALIAS(atomic_uint64_t),
    VF_ALIAS(atomic_intptr_t),
    VF_ALIAS(atomic_uintptr_t),
    VF_ALIAS(atomic_size_t),
    VF_ALIAS(atomic_ptrdiff_t),
    VF_ALIAS(atomic_intmax_t),
    VF_ALIAS(atomic_uintmax_t)};
#undef VF_ALIAS

// volatile-qualified yaclib_std::atomic<T> (integral T): the volatile overloads are separate code in both back ends
template <typename T>
void RunSeqVolatile(const Case& c, SeqResult& out) {
  const T init = Operand<T>(c.H(1), c.H(1) * 7 + 1);
  volatile yaclib_std::atomic<T> a{init};
  std::atomic<T> m{init};
  for (std::size_t i = 0; i < c.Records() && out.err == nullptr; ++i) {
    const int* r = c.Rec(i);
    const int op = r[0] % kOpN;
    const T x = Operand<T>(r[1], r[2]);
    const int ord = r[2] ^ r[4];
    T ra{}, rm{};
    switch (op) {
      case kStore:
        a.store(x, StoreOrder(ord));
        m.store(x, StoreOrder(ord));
        break;
      case kExchange:
        ra = a.exchange(x, RmwOrder(ord));
        rm = m.exchange(x, RmwOrder(ord));
        break;
      case kConvert:
        ra = static_cast<T>(a);
        rm = static_cast<T>(m);
        break;
      case kFetchAdd:
        ra = a.fetch_add(x, RmwOrder(ord));
        rm = m.fetch_add(x, RmwOrder(ord));
        break;
      case kFetchSub:
        ra = a.fetch_sub(x, RmwOrder(ord));
        rm = m.fetch_sub(x, RmwOrder(ord));
        break;
      case kFetchAnd:
        ra = a.fetch_and(x, RmwOrder(ord));
        rm = m.fetch_and(x, RmwOrder(ord));
        break;
      case kFetchOr:
        ra = a.fetch_or(x, RmwOrder(ord));
        rm = m.fetch_or(x, RmwOrder(ord));
        break;
      case kFetchXor:
        ra = a.fetch_xor(x, RmwOrder(ord));
        rm = m.fetch_xor(x, RmwOrder(ord));
        break;
      default:  // the remaining volatile overloads do not all instantiate in the pinned tree (see DESIGN.md): plain load
        ra = a.load(LoadOrder(ord));
        rm = m.load(LoadOrder(ord));
    }
    ++out.ops;
    if (ra != rm) {
      out.err = "volatile atomic: return value differs from std::atomic";
      out.failed_at = static_cast<int>(i);
    } else if (a.load() != m.load()) {
      out.err = "volatile atomic: stored value differs from std::atomic after the operation";
      out.failed_at = static_cast<int>(i);
    }
  }
}

void RunFlag(const Case& c, SeqResult& out) {
  yaclib_std::atomic_flag a{};
  std::atomic_flag m{};
  a.clear();
  m.clear();
  for (std::size_t i = 0; i < c.Records() && out.err == nullptr; ++i) {
    const int* r = c.Rec(i);
    ++out.ops;
    const int ord = r[2] ^ r[4];
    if (r[0] % 3 == 0) {
      a.clear(StoreOrder(ord));
      m.clear(StoreOrder(ord));
    } else if (r[0] % 3 == 1) {
      const bool ra = a.test_and_set(RmwOrder(ord));
      const bool rm = m.test_and_set(RmwOrder(ord));
      if (!rm) {
        ++out.rmw_changed;
      }
      if (ra != rm) {
        out.err = "atomic_flag::test_and_set returned a different value than std::atomic_flag";
        out.failed_at = static_cast<int>(i);
      }
    } else {
      yaclib_std::atomic_thread_fence(RmwOrder(ord));
    }
  }
  if (out.err == nullptr && a.test_and_set() != m.test_and_set()) {
    out.err = "atomic_flag final state differs from std::atomic_flag";
  }
}

struct CountingExplorer {
  // wraps the tape explorer: no preemption (single thread), counts injected weak failures
};

class WeakHook final : public yaclib::verif::Hook {
 public:
  explicit WeakHook(Explorer& ex) : _ex{ex} {
  }
  bool Preempt() final {
    return false;
  }
  std::size_t Pick(std::size_t) final {
    return 0;
  }
  bool FailWeak() final {
    const bool f = _ex.pos < _ex.tape.size() && _ex.tape[_ex.pos++] >= 128;
    gWeakTrue += f;
    return f;
  }
  std::uint64_t Rand(std::uint64_t) final {
    return 0;
  }
  void OnResume(std::uint64_t) final {
  }

 private:
  Explorer& _ex;
};

class AtomicFamily final : public vf::Family {
 public:
  const char* Name() const final {
    return kFamily;
  }
  const char* Property() const final {
    return "C19";
  }
  const char* Rule() const final {
    return "case = (T, initial value, sequence of <=48 operations with boundary-biased operands and memory orders, "
           "failure mode: hook-chosen spurious weak-CAS failures from the tape | library PRNG with fail frequency 1 "
           "(every weak CAS fails) | frequency 0 (never)); oracle = std::atomic<T> stepped by the same sequence, every "
           "return value / expected / stored value compared bitwise, injected weak failure must return false, report "
           "the current value and store nothing; non-trivial = the sequence contains a read-modify-write that "
           "changed the stored value; distinct = (program, failure choices)";
  }
  rc::Gen<Case> Gen() const final {
    return rc::gen::exec([]() {
      Case c;
      c.recw = 5;
      c.hdr = {vf::Pick(0, kTypeN), vf::Pick(0, 1 << 20), vf::Pick(0, 6)};  // failure mode x (plain | + volatile pass)
      const int n = vf::Pick(1, 49);
      // op selection biased to the operations legal for most types, operands biased to boundary selectors
      for (int i = 0; i < n; ++i) {
        c.prog.push_back(vf::Pick(0, kOpN));
        c.prog.push_back(vf::Pick(0, 24));
        c.prog.push_back(vf::Pick(0, 1 << 30));
        c.prog.push_back(vf::Pick(0, 24));
        c.prog.push_back(vf::Pick(0, 1 << 30));
      }
      const int tl = vf::Pick(0, 64);
      for (int i = 0; i < tl; ++i) {
        c.tape.push_back(static_cast<std::uint8_t>(vf::Pick(0, 256)));
      }
      return c;
    });
  }
  std::string Describe(const Case& c) const final {
    std::string s = std::string("backend=") + kBackend + " T=" + kTypeName[c.H(0) % kTypeN] +
                    " fail_mode=" + (c.H(2) % 3 == 0 ? "hook-tape" : c.H(2) % 3 == 1 ? "prng-freq-1" : "prng-freq-0") +
                    (c.H(2) / 3 % 2 == 1 ? " +volatile-pass" : "") + " ops=[";
    for (std::size_t i = 0; i < c.Records() && i < 48; ++i) {
      s += kOpName[c.Rec(i)[0] % kOpN];
      s += i + 1 < c.Records() ? "," : "";
    }
    return s + "]";
  }
  Verdict Run(const Case& c, Explorer& ex) final {
    Verdict v;
    SeqResult r;
    const int type = c.H(0) % kTypeN, mode = c.H(2) % 3;
    ex.ResetRun();
    WeakHook hook{ex};
    yaclib::SetFaultFrequency(1u << 30);  // no injected yields / sleeps: one thread
    if (mode == 0) {
      yaclib::verif::SetHook(&hook);
    } else {
      yaclib::verif::SetHook(nullptr);
      yaclib::SetSeed(static_cast<std::uint32_t>(c.H(1)));
      yaclib::SetAtomicFailFrequency(mode == 1 ? 1 : 0);
    }
    switch (type) {
      case 0:
        RunSeq<bool>(c, mode, r);
        break;
      case 1:
        RunSeq<std::int8_t>(c, mode, r);
        break;
      case 2:
        RunSeq<std::uint8_t>(c, mode, r);
        break;
      case 3:
        RunSeq<std::int16_t>(c, mode, r);
        break;
      case 4:
        RunSeq<std::uint16_t>(c, mode, r);
        break;
      case 5:
        RunSeq<std::int32_t>(c, mode, r);
        break;
      case 6:
        RunSeq<std::uint32_t>(c, mode, r);
        break;
      case 7:
        RunSeq<std::int64_t>(c, mode, r);
        break;
      case 8:
        RunSeq<std::uint64_t>(c, mode, r);
        break;
      case 9:
        RunSeq<int*>(c, mode, r);
        break;
      case 10:
        RunSeq<float>(c, mode, r);
        break;
      case 11:
        RunSeq<double>(c, mode, r);
        break;
      default:
        RunFlag(c, r);
    }
    if (r.err == nullptr && c.H(2) / 3 % 2 == 1) {
      switch (type) {
        case 1:
          RunSeqVolatile<std::int8_t>(c, r);
          break;
        case 2:
          RunSeqVolatile<std::uint8_t>(c, r);
          break;
        case 3:
          RunSeqVolatile<std::int16_t>(c, r);
          break;
        case 4:
          RunSeqVolatile<std::uint16_t>(c, r);
          break;
        case 5:
          RunSeqVolatile<std::int32_t>(c, r);
          break;
        case 6:
          RunSeqVolatile<std::uint32_t>(c, r);
          break;
        case 7:
          RunSeqVolatile<std::int64_t>(c, r);
          break;
        case 8:
          RunSeqVolatile<std::uint64_t>(c, r);
          break;
        default:
          break;
      }
    }
    yaclib::verif::SetHook(nullptr);
    for (const auto& row : kAliases) {
      if (!row.same && r.err == nullptr) {
        v.Fail(std::string("yaclib_std::") + row.name + " has another value type than std::" + row.name);
      }
    }
    if (r.err != nullptr) {
      v.Fail(std::string(r.err) + " [T=" + kTypeName[type] + ", op #" + std::to_string(r.failed_at) + " " +
             (r.failed_at >= 0 && static_cast<std::size_t>(r.failed_at) < c.Records()
                ? kOpName[c.Rec(static_cast<std::size_t>(r.failed_at))[0] % kOpN]
                : "?") +
             "]");
    }
    v.nontrivial = r.rmw_changed > 0;
    std::uint64_t th = 0;
    for (std::size_t i = 0; i < ex.pos && i < ex.tape.size(); ++i) {
      th = vf::Mix64(th, ex.tape[i] >= 128);
    }
    v.hash = vf::Mix64(c.ProgHash(), th);
    v.tags.push_back(kTypeName[type]);
    if (r.injected_weak_failures > 0) {
      v.tags.push_back("injected-weak-failure");
    }
    return v;
  }
};

}  // namespace

#ifdef VF_FUZZ
#  include "common/fuzz.hpp"
extern "C" int LLVMFuzzerTestOneInput(const std::uint8_t* data, std::size_t size) {
  static AtomicFamily fam;
  return vf::FuzzOne(fam, vf::FuzzShape{3, 5, 48, 64}, data, size);
}
#else
int main(int argc, char** argv) {
  AtomicFamily fam;
  vf::Driver d{{&fam}};
  return d.Main(argc, argv);
}
#endif
