# Harness binaries: name -> dict(cfg, src, cflags, libs). Evaluated by tools/build.py (ASAN, TSAN, COMMON are provided).
TARGETS = {
    'handoff': dict(cfg='fib', src=['harness/handoff.cpp'], cflags=f'-O1 -g1 {ASAN}', libs='-lrapidcheck'),
    'atomic-fib': dict(cfg='fib', src=['harness/atomic.cpp'], cflags=f'-O0 -g1 {ASAN} {UBSAN}', libs='-lrapidcheck'),
    'atomic-thr': dict(cfg='thr', src=['harness/atomic.cpp'], cflags=f'-O0 -g1 {ASAN} {UBSAN}', libs='-lrapidcheck'),
    'stdlocks': dict(cfg='fib', src=['harness/stdlocks.cpp'], cflags=f'-O1 -g1 {ASAN}', libs='-lrapidcheck'),
    'repro': dict(cfg='fib', src=['harness/repro.cpp'], cflags=f'-O1 -g1 {ASAN}', libs='-lrapidcheck'),
    'exec': dict(cfg='fib', src=['harness/exec.cpp'], cflags=f'-O1 -g1 {ASAN}', libs='-lrapidcheck'),
    'shared': dict(cfg='fib', src=['harness/shared.cpp'], cflags=f'-O1 -g1 {ASAN}', libs='-lrapidcheck'),
    'when': dict(cfg='fib', src=['harness/when.cpp'], cflags=f'-O1 -g1 {ASAN}', libs='-lrapidcheck'),
    'wait': dict(cfg='fib', src=['harness/wait.cpp'], cflags=f'-O1 -g1 {ASAN}', libs='-lrapidcheck'),
    'comutex': dict(cfg='fib', src=['harness/comutex.cpp'], cflags=f'-O1 -g1 {ASAN}', libs='-lrapidcheck'),
    'coro': dict(cfg='fib', src=['harness/coro.cpp'], cflags=f'-O1 -g1 {ASAN}', libs='-lrapidcheck'),
    'coro-nost': dict(cfg='fib-nost', src=['harness/coro.cpp'], cflags=f'-O1 -g1 {ASAN}', libs='-lrapidcheck'),
    'pipeline': dict(cfg='off', src=['harness/pipeline.cpp'], cflags=f'-O0 -g0 {ASAN}', libs='-lrapidcheck'),
    'allocbounds': dict(cfg='off', src=['harness/allocbounds.cpp'], cflags=f'-O0 -g0 {ASAN}', libs='-lrapidcheck'),
    'races-off': dict(cfg='tsan-off', src=['harness/races.cpp'], cflags=f'-O1 -g1 {TSAN}', libs='-lrapidcheck'),
    'races-thr': dict(cfg='tsan-thr', src=['harness/races.cpp'], cflags=f'-O1 -g1 {TSAN}', libs='-lrapidcheck'),
}
