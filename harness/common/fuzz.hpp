// libFuzzer entry shared by families that run in-process, single-threaded and deterministically.
// Bytes -> FuzzedDataProvider -> Case (structure-aware: fixed-width records), the semantic oracle sits inside the
// target; a failing case is written to $VF_FUZZ_OUT/fail.case before trapping. Counters are flushed at normal exit.
#pragma once

#include "case.hpp"
#include "driver.hpp"
#include "explorer.hpp"

#include <fuzzer/FuzzedDataProvider.h>

#include <cstdio>
#include <cstdlib>
#include <string>
#include <unordered_set>

namespace vf {

struct FuzzShape {
  int hdr_n, recw, max_recs, tape_max;
};

struct FuzzState {
  Family* fam = nullptr;
  FuzzShape shape{};
  long evaluations = 0, nontrivial = 0;
  std::unordered_set<std::uint64_t> hashes;
  std::string sample;
  std::string out;
};

inline FuzzState& FS() {
  static FuzzState s;
  return s;
}

inline void FuzzFlush() {
  auto& s = FS();
  if (s.fam == nullptr) {
    return;
  }
  if (FILE* f = std::fopen((s.out + "/stats.json").c_str(), "w")) {
    std::fprintf(f,
                 "{\n \"family\": \"%s\",\n \"property\": \"%s\",\n \"seed\": 0,\n \"mode\": \"fuzz\",\n \"bound\": 0,\n"
                 " \"evaluations\": %ld,\n \"nontrivial\": %ld,\n \"distinct_nontrivial\": %zu,\n \"inconclusive\": 0,\n"
                 " \"excluded\": 0,\n \"failures\": 0,\n \"shrink_evals\": 0,\n \"exhaustive\": false,\n \"dfs_programs\": 0,\n"
                 " \"wall_s\": 0,\n \"rule\": \"%s\",\n \"tags\": {},\n \"samples\": [\"%s\"]\n}\n",
                 s.fam->Name(), s.fam->Property(), s.evaluations, s.nontrivial, s.hashes.size(),
                 JsonEscape(s.fam->Rule()).c_str(), JsonEscape(s.sample).c_str());
    std::fclose(f);
  }
  if (FILE* h = std::fopen((s.out + "/hashes.bin").c_str(), "wb")) {
    for (auto v : s.hashes) {
      std::fwrite(&v, sizeof v, 1, h);
    }
    std::fclose(h);
  }
}

inline int FuzzOne(Family& fam, FuzzShape shape, const std::uint8_t* data, std::size_t size) {
  auto& s = FS();
  if (s.fam == nullptr) {
    s.fam = &fam;
    s.shape = shape;
    const char* o = std::getenv("VF_FUZZ_OUT");
    s.out = o != nullptr ? o : ".";
    std::atexit(FuzzFlush);
  }
  FuzzedDataProvider fdp(data, size);
  Case c;
  c.family = fam.Name();
  c.recw = shape.recw;
  for (int i = 0; i < shape.hdr_n; ++i) {
    c.hdr.push_back(fdp.ConsumeIntegralInRange<int>(0, 1 << 20));
  }
  const int tl = shape.tape_max > 0 ? fdp.ConsumeIntegralInRange<int>(0, shape.tape_max) : 0;
  for (int i = 0; i < tl; ++i) {
    c.tape.push_back(fdp.ConsumeIntegral<std::uint8_t>());
  }
  for (int r = 0; r < shape.max_recs && fdp.remaining_bytes() >= static_cast<std::size_t>(shape.recw); ++r) {
    for (int k = 0; k < shape.recw; ++k) {
      c.prog.push_back(fdp.ConsumeIntegralInRange<int>(0, 1 << 20));
    }
  }
  Explorer ex;
  ex.tape = c.tape;
  Verdict v = fam.Run(c, ex);
  ++s.evaluations;
  if (v.nontrivial) {
    ++s.nontrivial;
    if (s.hashes.insert(v.hash).second && s.sample.empty()) {
      s.sample = fam.Describe(c);
    }
  }
  if (!v.ok) {
    if (FILE* f = std::fopen((s.out + "/fail.case").c_str(), "w")) {
      const std::string t = c.Serialize();
      std::fwrite(t.data(), 1, t.size(), f);
      std::fprintf(f, "# verdict FAIL: %s\n", v.msg.c_str());
      std::fclose(f);
    }
    std::fprintf(stderr, "FAIL family=%s property=%s msg=%s case=%s/fail.case\n", fam.Name(), fam.Property(), v.msg.c_str(),
                 s.out.c_str());
    FuzzFlush();
    __builtin_trap();
  }
  return 0;
}

}  // namespace vf
