// Running one case under YACLib's fiber scheduler with the explorer installed. Must be called on the host thread.
#pragma once

#include "explorer.hpp"

#include <yaclib/fault/config.hpp>
#include <yaclib/fault/detail/fiber/scheduler.hpp>
#include <yaclib/fault/inject.hpp>
#include <yaclib_std/thread>

namespace vf {

// Returns true if body ran to completion; false means quiescent deadlock: nothing is runnable, nobody sleeps,
// and the main fiber is still parked (exact, not a timeout).
template <typename Body>
bool RunFibers(Explorer& ex, Body&& body) {
  yaclib::fault::Scheduler scheduler;
  yaclib::fault::Scheduler::Set(&scheduler);
  ex.ResetRun();
  yaclib::verif::SetHook(&ex);
  bool done = false;
  auto* main_fiber = new yaclib_std::thread([&] {
    body();
    done = true;
  });
  // the constructor returned => the run loop drained: every fiber finished or is parked for good
  yaclib::verif::SetHook(nullptr);
  if (done) {
    main_fiber->join();
  } else {
    main_fiber->detach();  // parked fibers are abandoned together with their stacks
  }
  delete main_fiber;
  yaclib::fault::Scheduler::Set(nullptr);
  return done;
}

inline void Point() {
  yaclib::InjectFault();
}

}  // namespace vf
