// Worker driver shared by all harness binaries: rapidcheck generation + shrinking, bounded-exhaustive schedule
// enumeration, replay of saved cases, statistics for the evidence file.
//
//   worker --family F --seed S --cases N --max-size Z --out DIR      random search (rapidcheck)
//   worker --family F --dfs --bound B --out DIR [--shard i/n]        bounded-exhaustive schedules per program
//   worker --replay FILE                                            run one saved case, exit 0 pass / 3 fail
//   worker --list                                                   list families
//
// Files written into DIR: stats.json, hashes.bin (u64 hashes of distinct non-trivial executions),
// last.case (case being executed, for crash recovery), fail.case (minimal failing case, if any).
#pragma once

#include "case.hpp"
#include "explorer.hpp"

#ifndef VF_NO_RC
#  include <rapidcheck.h>
#endif

#include <chrono>
#include <cstdio>
#include <cstdlib>
#include <cstring>
#include <fcntl.h>
#include <map>
#include <string>
#include <sys/mman.h>
#include <unistd.h>
#include <unordered_set>
#include <vector>

namespace vf {

struct Family {
  virtual ~Family() = default;
  virtual const char* Name() const = 0;
  virtual const char* Property() const = 0;
#ifndef VF_NO_RC
  // random generation; everything random must come from rapidcheck
  virtual rc::Gen<Case> Gen() const = 0;
#endif
  // run one case; the explorer is already loaded with the case's tape (or is in DFS mode)
  virtual Verdict Run(const Case& c, Explorer& ex) = 0;
  virtual std::string Describe(const Case& c) const {
    return c.Serialize();
  }
  // programs (without tape) whose schedules are enumerated exhaustively in --dfs mode
  virtual std::vector<Case> DfsPrograms(int /*tier: 0 quick, 1 thorough*/) const {
    return {};
  }
  // non-trivial rule in words, for the evidence file
  virtual const char* Rule() const = 0;
};

// ------------------------------------------------------------------------------------------------
#ifndef VF_NO_RC
// generators for the schedule tape (always resize-wrapped, see guidance)
inline rc::Gen<std::vector<std::uint8_t>> GenTape(int max_len) {
  using namespace rc;
  // sparse: d preemption bytes among the first L positions, PCT-like; dense: mostly zeros, some random bytes
  auto sparse = gen::exec([max_len]() {
    const int len = *gen::resize(100, gen::inRange(0, max_len + 1));
    std::vector<std::uint8_t> t(static_cast<std::size_t>(len), 0);
    if (len > 0) {
      const int d = *gen::resize(100, gen::inRange(0, 5));
      for (int i = 0; i < d; ++i) {
        const int p = *gen::resize(100, gen::inRange(0, len));
        t[static_cast<std::size_t>(p)] = static_cast<std::uint8_t>(*gen::resize(100, gen::inRange(192, 256)));
      }
    }
    return t;
  });
  auto dense = gen::exec([max_len]() {
    const int len = *gen::resize(100, gen::inRange(0, max_len + 1));
    auto byte = gen::weightedOneOf<std::uint8_t>(
      {{6, gen::just<std::uint8_t>(0)},
       {3, gen::map(gen::resize(100, gen::inRange(0, 256)), [](int v) { return static_cast<std::uint8_t>(v); })},
       {1, gen::map(gen::resize(100, gen::inRange(192, 256)), [](int v) { return static_cast<std::uint8_t>(v); })}});
    return *gen::container<std::vector<std::uint8_t>>(static_cast<std::size_t>(len), byte);
  });
  return gen::weightedOneOf<std::vector<std::uint8_t>>({{1, sparse}, {1, dense}});
}

inline int Pick(int lo, int hi_excl) {  // inside gen::exec / property only
  return *rc::gen::resize(100, rc::gen::inRange(lo, hi_excl));
}

#endif

// ------------------------------------------------------------------------------------------------
struct Stats {
  long evaluations = 0, nontrivial = 0, inconclusive = 0, excluded = 0, failures = 0, shrink_evals = 0;
  std::unordered_set<std::uint64_t> hashes;
  std::map<std::string, long> tags;
  std::vector<std::string> samples;
  bool exhaustive = false;
  long dfs_programs = 0;
};

inline std::string JsonEscape(const std::string& s) {
  std::string o;
  for (char c : s) {
    switch (c) {
      case '"':
        o += "\\\"";
        break;
      case '\\':
        o += "\\\\";
        break;
      case '\n':
        o += "\\n";
        break;
      case '\t':
        o += "\\t";
        break;
      default:
        if (static_cast<unsigned char>(c) < 0x20) {
          char b[8];
          std::snprintf(b, sizeof b, "\\u%04x", c);
          o += b;
        } else {
          o += c;
        }
    }
  }
  return o;
}

class Driver {
 public:
  explicit Driver(std::vector<Family*> fams) : _fams{std::move(fams)} {
  }

  int Main(int argc, char** argv) {
    std::string family, replay, replay_many, out = ".";
    std::uint64_t seed = 1;
    long cases = 1000;
    int max_size = 100, bound = 3, shard_i = 0, shard_n = 1, tier = 0;
    bool dfs = false, list = false;
    for (int i = 1; i < argc; ++i) {
      std::string a = argv[i];
      auto next = [&]() -> std::string { return i + 1 < argc ? argv[++i] : ""; };
      if (a == "--family") {
        family = next();
      } else if (a == "--seed") {
        seed = std::strtoull(next().c_str(), nullptr, 10);
      } else if (a == "--cases") {
        cases = std::atol(next().c_str());
      } else if (a == "--max-size") {
        max_size = std::atoi(next().c_str());
      } else if (a == "--out") {
        out = next();
      } else if (a == "--replay") {
        replay = next();
      } else if (a == "--dfs") {
        dfs = true;
      } else if (a == "--bound") {
        bound = std::atoi(next().c_str());
      } else if (a == "--dump") {
        _dump = next();
      } else if (a == "--dump-only") {
        _dump_only = true;
      } else if (a == "--replay-many") {
        replay_many = next();
      } else if (a == "--dfs-cap") {
        _dfs_cap = std::atol(next().c_str());
      } else if (a == "--tier") {
        tier = next() == "thorough" ? 1 : 0;
      } else if (a == "--shard") {
        std::string s = next();
        std::sscanf(s.c_str(), "%d/%d", &shard_i, &shard_n);
      } else if (a == "--list") {
        list = true;
      } else {
        std::fprintf(stderr, "unknown argument %s\n", a.c_str());
        return 2;
      }
    }
    if (list) {
      for (auto* f : _fams) {
        std::printf("%s %s\n", f->Name(), f->Property());
      }
      return 0;
    }
    if (!replay.empty()) {
      return Replay(replay);
    }
    if (!replay_many.empty()) {
      _out = out;
      OpenLast();
      return ReplayMany(replay_many);
    }
    Family* fam = Find(family);
    if (fam == nullptr) {
      std::fprintf(stderr, "unknown family '%s'\n", family.c_str());
      return 2;
    }
    _out = out;
    OpenLast();
    const auto t0 = std::chrono::steady_clock::now();
    int rc_ = 0;
    if (dfs) {
      rc_ = RunDfs(*fam, bound, tier, shard_i, shard_n);
    } else {
      rc_ = RunRandom(*fam, seed, cases, max_size);
    }
    const double wall = std::chrono::duration<double>(std::chrono::steady_clock::now() - t0).count();
    WriteStats(*fam, seed, wall, dfs, bound);
    return rc_;
  }

 private:
  Family* Find(const std::string& name) {
    for (auto* f : _fams) {
      if (name == f->Name()) {
        return f;
      }
    }
    return nullptr;
  }

  int Replay(const std::string& path) {
    Case c;
    if (!Case::Load(path, c)) {
      std::fprintf(stderr, "cannot load %s\n", path.c_str());
      return 2;
    }
    Family* fam = Find(c.family);
    if (fam == nullptr) {
      std::fprintf(stderr, "unknown family '%s' in %s\n", c.family.c_str(), path.c_str());
      return 2;
    }
    Explorer ex;
    ex.tape = c.tape;
    if (!c.dfs.empty()) {
      ex.mode = Explorer::kDfs;
      ex.preempt_bound = static_cast<unsigned>(c.dfs[0]);
      for (std::size_t i = 1; i + 1 < c.dfs.size(); i += 2) {
        ex.dfs.emplace_back(static_cast<std::uint16_t>(c.dfs[i]), static_cast<std::uint16_t>(c.dfs[i + 1]));
      }
    }
    Verdict v = fam->Run(c, ex);
    std::printf("%s\n", fam->Describe(c).c_str());
    std::printf("REPLAY family=%s property=%s verdict=%s%s%s msg=%s\n", fam->Name(), fam->Property(),
                v.ok ? "PASS" : "FAIL", v.inconclusive ? " inconclusive" : "", v.excluded ? " excluded" : "",
                v.msg.c_str());
    if (!v.detail.empty()) {
      std::printf("detail: %s\n", v.detail.c_str());
    }
    std::fflush(stdout);
    return v.ok ? 0 : 3;
  }

  // runs every case of a dump file (cases separated by "---" lines); no rapidcheck function is called on this path,
  // so it is usable from a build with different container ABI (_GLIBCXX_DEBUG)
  int ReplayMany(const std::string& path) {
    std::ifstream in(path);
    if (!in) {
      std::fprintf(stderr, "cannot open %s\n", path.c_str());
      return 2;
    }
    const auto t0 = std::chrono::steady_clock::now();
    std::string line, text;
    Family* fam = nullptr;
    int rc_ = 0;
    while (rc_ == 0 && std::getline(in, line)) {
      if (line != "---") {
        text += line + "\n";
        continue;
      }
      Case c;
      if (Case::Parse(text, c)) {
        fam = Find(c.family);
        if (fam == nullptr) {
          return 2;
        }
        NoteLast(c);
        Explorer ex;
        ex.tape = c.tape;
        Verdict v = fam->Run(c, ex);
        Record(*fam, c, v);
        if (!v.ok) {
          ++_st.failures;
          SaveFail(c, v);
          std::printf("FAIL family=%s property=%s msg=%s case=%s/fail.case\n", fam->Name(), fam->Property(), v.msg.c_str(),
                      _out.c_str());
          rc_ = 3;
        }
      }
      text.clear();
    }
    if (fam != nullptr) {
      const double wall = std::chrono::duration<double>(std::chrono::steady_clock::now() - t0).count();
      WriteStats(*fam, 0, wall, false, 0);
    }
    return rc_;
  }

  void OpenLast() {
    std::string p = _out + "/last.case";
    _last_fd = ::open(p.c_str(), O_RDWR | O_CREAT | O_TRUNC, 0644);
    if (_last_fd >= 0 && ::ftruncate(_last_fd, kLastSize) == 0) {
      _last = static_cast<char*>(::mmap(nullptr, kLastSize, PROT_READ | PROT_WRITE, MAP_SHARED, _last_fd, 0));
      if (_last == MAP_FAILED) {
        _last = nullptr;
      }
    }
  }

  void NoteLast(const Case& c) {
    if (_last == nullptr) {
      return;
    }
    std::string s = c.Serialize();
    if (s.size() + 1 > kLastSize) {
      s.resize(kLastSize - 1);
    }
    std::memcpy(_last, s.data(), s.size());
    _last[s.size()] = '\0';
  }

  void SaveFail(const Case& c, const Verdict& v) {
    std::string p = _out + "/fail.case";
    if (FILE* f = std::fopen(p.c_str(), "w")) {
      std::string s = c.Serialize();
      std::fwrite(s.data(), 1, s.size(), f);
      std::fprintf(f, "# verdict FAIL: %s\n", v.msg.c_str());
      std::fclose(f);
    }
  }

  void Record(Family& fam, const Case& c, const Verdict& v) {
    ++_st.evaluations;
    if (v.inconclusive) {
      ++_st.inconclusive;
    }
    if (v.excluded) {
      ++_st.excluded;
    }
    for (const char* t : v.tags) {
      ++_st.tags[t];
    }
    if (v.nontrivial && !v.excluded) {
      ++_st.nontrivial;
      const bool fresh = _st.hashes.insert(v.hash).second;
      if (fresh && _st.samples.size() < 4 && (_st.hashes.size() % 97 == 1 || _st.samples.empty())) {
        std::string d = fam.Describe(c);
        if (!v.detail.empty()) {
          d += " | " + v.detail;
        }
        _st.samples.push_back(d);
      }
    }
  }

#ifndef VF_NO_RC
  int RunRandom(Family& fam, std::uint64_t seed, long cases, int max_size) {
    char params[256];
    std::snprintf(params, sizeof params, "seed=%llu max_success=%ld max_size=%d max_discard_ratio=20",
                  static_cast<unsigned long long>(seed), cases, max_size);
    ::setenv("RC_PARAMS", params, 1);
    bool failing = false;
    std::string fail_msg;
    FILE* dump = _dump.empty() ? nullptr : std::fopen(_dump.c_str(), "w");
    const bool ok = rc::check(std::string("family ") + fam.Name(), [&]() {
      Case c = *fam.Gen();
      c.family = fam.Name();
      if (dump != nullptr && !failing) {
        const std::string t = c.Serialize();
        std::fwrite(t.data(), 1, t.size(), dump);
        std::fputs("---\n", dump);
      }
      if (_dump_only) {
        ++_st.evaluations;
        return;
      }
      NoteLast(c);
      Explorer ex;
      ex.tape = c.tape;
      Verdict v = fam.Run(c, ex);
      if (failing) {
        ++_st.shrink_evals;
      } else {
        Record(fam, c, v);
      }
      if (!v.ok) {
        failing = true;
        fail_msg = v.msg;
        ++_st.failures;
        SaveFail(c, v);
        RC_FAIL(v.msg);
      }
    });
    if (dump != nullptr) {
      std::fclose(dump);
    }
    if (!ok) {
      std::printf("FAIL family=%s property=%s msg=%s case=%s/fail.case\n", fam.Name(), fam.Property(),
                  fail_msg.c_str(), _out.c_str());
      std::fflush(stdout);
      return 3;
    }
    return 0;
  }

#else
  int RunRandom(Family&, std::uint64_t, long, int) {
    std::fprintf(stderr, "this build has no generator (VF_NO_RC): use --replay / --replay-many / --dfs\n");
    return 2;
  }
#endif

  int RunDfs(Family& fam, int bound, int tier, int shard_i, int shard_n) {
    auto programs = fam.DfsPrograms(tier);
    long idx = 0;
    _st.exhaustive = true;
    for (auto& c : programs) {
      if ((idx++ % shard_n) != shard_i) {
        continue;
      }
      c.family = fam.Name();
      ++_st.dfs_programs;
      Explorer ex;
      ex.mode = Explorer::kDfs;
      ex.preempt_bound = static_cast<unsigned>(bound);
      ex.record_eff = true;
      long n = 0;
      do {
        c.dfs.assign(1, bound);
        for (auto& [val, ar] : ex.dfs) {
          c.dfs.push_back(val);
          c.dfs.push_back(ar);
        }
        NoteLast(c);
        Verdict v = fam.Run(c, ex);
        ++n;
        Record(fam, c, v);
        if (!v.ok) {
          Case fc = c;
          fc.dfs.clear();
          fc.tape = ex.eff;
          ++_st.failures;
          SaveFail(fc, v);
          std::printf("FAIL family=%s property=%s msg=%s case=%s/fail.case (dfs schedule %ld)\n", fam.Name(),
                      fam.Property(), v.msg.c_str(), _out.c_str(), n);
          std::fflush(stdout);
          _st.exhaustive = false;
          return 3;
        }
        if (n >= _dfs_cap) {
          _st.exhaustive = false;  // space larger than the cap: reported, not a violation
          ++_st.tags["dfs-capped-programs"];
          break;
        }
      } while (ex.DfsNext());
    }
    return 0;
  }

  void WriteStats(Family& fam, std::uint64_t seed, double wall, bool dfs, int bound) {
    std::string p = _out + "/stats.json";
    FILE* f = std::fopen(p.c_str(), "w");
    if (f == nullptr) {
      return;
    }
    std::fprintf(f, "{\n \"family\": \"%s\",\n \"property\": \"%s\",\n \"seed\": %llu,\n \"mode\": \"%s\",\n", fam.Name(),
                 fam.Property(), static_cast<unsigned long long>(seed), dfs ? "dfs" : "random");
    std::fprintf(f, " \"bound\": %d,\n \"evaluations\": %ld,\n \"nontrivial\": %ld,\n \"distinct_nontrivial\": %zu,\n",
                 bound, _st.evaluations, _st.nontrivial, _st.hashes.size());
    std::fprintf(f, " \"inconclusive\": %ld,\n \"excluded\": %ld,\n \"failures\": %ld,\n \"shrink_evals\": %ld,\n",
                 _st.inconclusive, _st.excluded, _st.failures, _st.shrink_evals);
    std::fprintf(f, " \"exhaustive\": %s,\n \"dfs_programs\": %ld,\n \"wall_s\": %.3f,\n",
                 _st.exhaustive ? "true" : "false", _st.dfs_programs, wall);
    std::fprintf(f, " \"rule\": \"%s\",\n \"tags\": {", JsonEscape(fam.Rule()).c_str());
    bool first = true;
    for (auto& [k, v] : _st.tags) {
      std::fprintf(f, "%s\"%s\": %ld", first ? "" : ", ", JsonEscape(k).c_str(), v);
      first = false;
    }
    std::fprintf(f, "},\n \"samples\": [");
    first = true;
    for (auto& s : _st.samples) {
      std::fprintf(f, "%s\"%s\"", first ? "" : ", ", JsonEscape(s).c_str());
      first = false;
    }
    std::fprintf(f, "]\n}\n");
    std::fclose(f);
    std::string hp = _out + "/hashes.bin";
    if (FILE* h = std::fopen(hp.c_str(), "wb")) {
      for (auto v : _st.hashes) {
        std::fwrite(&v, sizeof v, 1, h);
      }
      std::fclose(h);
    }
  }

  static constexpr std::size_t kLastSize = 1 << 16;
  long _dfs_cap = 400000;
  std::string _dump;
  bool _dump_only = false;
  std::vector<Family*> _fams;
  std::string _out;
  Stats _st;
  int _last_fd = -1;
  char* _last = nullptr;
};

}  // namespace vf
