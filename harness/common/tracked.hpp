// Tracked payloads: every construction / destruction / copy / move / read is checked against the object's
// life-cycle state, independent of ASan. Errors are recorded in a global slot (first error wins).
#pragma once

#include <cstdint>
#include <string>

namespace vf {

struct TrackState {
  long constructed = 0, destroyed = 0, copies = 0, moves = 0;
  const char* err = nullptr;
  void Reset() {
    *this = TrackState{};
  }
  void Err(const char* e) {
    if (err == nullptr) {
      err = e;
    }
  }
  long Live() const {
    return constructed - destroyed;
  }
};

inline TrackState& TS() {
  static TrackState s;
  return s;
}

// copyable payload with a checksum over four words
struct Pay {
  enum : std::uint32_t { kAlive = 0xA11CE001u, kMoved = 0x30FEDu, kDead = 0xDEADDEADu };
  std::uint32_t w[4]{};
  std::uint32_t st = kAlive;

  static std::uint32_t Sum(int v) {
    return static_cast<std::uint32_t>(v) * 2654435761u + 17u;
  }
  Pay() {
    ++TS().constructed;
    Fill(0);
  }
  explicit Pay(int v) {
    ++TS().constructed;
    Fill(v);
  }
  void Fill(int v) {
    w[0] = static_cast<std::uint32_t>(v);
    w[1] = ~w[0];
    w[2] = Sum(v);
    w[3] = w[2] ^ 0x5a5a5a5au;
  }
  Pay(const Pay& o) {
    ++TS().constructed;
    ++TS().copies;
    o.CheckSrc("copy");
    for (int i = 0; i < 4; ++i) {
      w[i] = o.w[i];
    }
  }
  Pay(Pay&& o) noexcept {
    ++TS().constructed;
    ++TS().moves;
    o.CheckSrc("move");
    for (int i = 0; i < 4; ++i) {
      w[i] = o.w[i];
    }
    o.st = kMoved;
  }
  Pay& operator=(const Pay& o) {
    CheckDst();
    o.CheckSrc("copy-assign");
    for (int i = 0; i < 4; ++i) {
      w[i] = o.w[i];
    }
    st = kAlive;
    ++TS().copies;
    return *this;
  }
  Pay& operator=(Pay&& o) noexcept {
    CheckDst();
    o.CheckSrc("move-assign");
    for (int i = 0; i < 4; ++i) {
      w[i] = o.w[i];
    }
    st = kAlive;
    if (&o != this) {
      o.st = kMoved;
    }
    ++TS().moves;
    return *this;
  }
  ~Pay() {
    if (st == kDead) {
      TS().Err("payload destroyed twice");
    } else if (st != kAlive && st != kMoved) {
      TS().Err("destructor on garbage payload");
    }
    st = kDead;
    ++TS().destroyed;
  }
  void CheckDst() const {
    if (st == kDead) {
      TS().Err("assignment to a destroyed payload");
    } else if (st != kAlive && st != kMoved) {
      TS().Err("assignment to garbage payload");
    }
  }
  void CheckSrc(const char* what) const {
    (void)what;
    if (st == kMoved) {
      TS().Err("read of a moved-from payload");
    } else if (st == kDead) {
      TS().Err("read of a destroyed payload");
    } else if (st != kAlive) {
      TS().Err("read of garbage payload");
    } else if (w[1] != ~w[0] || w[2] != Sum(static_cast<int>(w[0])) || w[3] != (w[2] ^ 0x5a5a5a5au)) {
      TS().Err("torn payload (checksum mismatch)");
    }
  }
  // value as seen by an observer; records an error if the object is not readable
  int Read() const {
    CheckSrc("read");
    return static_cast<int>(w[0]);
  }
  bool Is(int v) const {
    return Read() == v;
  }
};

// move-only payload
struct MoPay {
  Pay p;
  MoPay() = default;
  explicit MoPay(int v) : p{v} {
  }
  MoPay(MoPay&&) noexcept = default;
  MoPay& operator=(MoPay&&) noexcept = default;
  MoPay(const MoPay&) = delete;
  MoPay& operator=(const MoPay&) = delete;
  int Read() const {
    return p.Read();
  }
};

// guard captured by functors: counts functor life-cycle and flags invocation of a dead/moved functor
struct Guard {
  Pay p{7};
  Guard() = default;
  Guard(const Guard&) = default;
  Guard(Guard&&) noexcept = default;
  Guard& operator=(const Guard&) = default;
  Guard& operator=(Guard&&) noexcept = default;
  void Use() const {
    (void)p.Read();
  }
};

}  // namespace vf
