// Instrumented executors for the harness. All counters are plain (fibers are cooperative on one OS thread).
#pragma once

#include <yaclib/exe/executor.hpp>
#include <yaclib/exe/job.hpp>

#include <yaclib_std/condition_variable>
#include <yaclib_std/mutex>

#include <cstddef>

namespace vf {

// Identity of "where am I running": set by executors around Call()
inline int& CurrentExecTag() {
  static int tag = 0;  // 0 = not inside any harness executor
  return tag;
}

struct ExecCounters {
  long submits = 0, calls = 0, drops = 0;
};

// Runs the job inside Submit on the submitting fiber (like Inline, but tagged and counting, and able to refuse
// from its k-th Submit on: refuse_from = k (0-based), -1 = never).
class TagInlineExec final : public yaclib::IExecutor {
 public:
  explicit TagInlineExec(int tag, long refuse_from = -1) : _tag{tag}, _refuse_from{refuse_from} {
  }
  Type Tag() const noexcept final {
    return Type::Custom;
  }
  bool Alive() const noexcept final {
    return !(_refuse_from >= 0 && c.submits >= _refuse_from);
  }
  void Submit(yaclib::Job& job) noexcept final {
    const bool refuse = _refuse_from >= 0 && c.submits >= _refuse_from;
    ++c.submits;
    if (refuse) {
      ++c.drops;
      job.Drop();
      return;
    }
    ++c.calls;
    const int prev = CurrentExecTag();
    CurrentExecTag() = _tag;
    job.Call();
    CurrentExecTag() = prev;
  }
  ExecCounters c;

 private:
  int _tag;
  long _refuse_from;
};

// FIFO queue served by a dedicated fiber (created by the case). Uses yaclib_std primitives, so waiting parks the fiber.
class QueueExec final : public yaclib::IExecutor {
 public:
  explicit QueueExec(int tag, long refuse_from = -1) : _tag{tag}, _refuse_from{refuse_from} {
  }
  Type Tag() const noexcept final {
    return Type::Custom;
  }
  bool Alive() const noexcept final {
    return !(_refuse_from >= 0 && c.submits >= _refuse_from);
  }
  void Submit(yaclib::Job& job) noexcept final {
    const bool refuse = _refuse_from >= 0 && c.submits >= _refuse_from;
    ++c.submits;
    if (refuse) {
      ++c.drops;
      job.Drop();
      return;
    }
    {
      std::lock_guard g{_m};
      job.next = nullptr;
      if (_tail != nullptr) {
        _tail->next = &job;
      } else {
        _head = &job;
      }
      _tail = &job;
    }
    _cv.notify_one();
  }
  // body of the serving fiber; returns after Stop() once the queue is empty
  void Serve() {
    for (;;) {
      yaclib::Job* job = nullptr;
      {
        std::unique_lock l{_m};
        while (_head == nullptr && !_stop) {
          _cv.wait(l);
        }
        if (_head == nullptr) {
          return;
        }
        job = _head;
        _head = static_cast<yaclib::Job*>(job->next);
        if (_head == nullptr) {
          _tail = nullptr;
        }
      }
      ++c.calls;
      const int prev = CurrentExecTag();
      CurrentExecTag() = _tag;
      job->Call();
      CurrentExecTag() = prev;
    }
  }
  void Stop() {
    {
      std::lock_guard g{_m};
      _stop = true;
    }
    _cv.notify_all();
  }
  ExecCounters c;

 private:
  int _tag;
  long _refuse_from;
  yaclib_std::mutex _m;
  yaclib_std::condition_variable _cv;
  yaclib::Job* _head = nullptr;
  yaclib::Job* _tail = nullptr;
  bool _stop = false;
};

}  // namespace vf
