// Case: plain data describing one generated case; serialises to a line-oriented text file (the replay file).
#pragma once

#include <cstdint>
#include <cstdlib>
#include <cstdio>
#include <cstring>
#include <set>
#include <fstream>
#include <sstream>
#include <string>
#include <vector>

namespace vf {

struct Case {
  std::string family;
  std::vector<int> hdr;            // scalar parameters (shrink towards 0 individually)
  int recw = 1;                    // width of one program record in ints
  std::vector<int> prog;           // program: records of recw ints (shrink by removing whole records)
  std::vector<std::uint8_t> tape;  // schedule tape (shrink by truncation / zeroing)
  // alternative schedule form used for crash recovery in --dfs mode: bound followed by (value, arity) pairs
  std::vector<int> dfs;

  std::size_t Records() const {
    return recw > 0 ? prog.size() / static_cast<std::size_t>(recw) : 0;
  }
  const int* Rec(std::size_t i) const {
    return prog.data() + i * static_cast<std::size_t>(recw);
  }
  int H(std::size_t i, int def = 0) const {
    return i < hdr.size() ? hdr[i] : def;
  }

  std::string Serialize() const {
    std::ostringstream os;
    os << "family " << family << "\n";
    os << "hdr";
    for (int h : hdr) {
      os << ' ' << h;
    }
    os << "\nrecw " << recw << "\nprog";
    for (int p : prog) {
      os << ' ' << p;
    }
    os << "\ntape";
    for (auto t : tape) {
      os << ' ' << static_cast<int>(t);
    }
    os << "\n";
    if (!dfs.empty()) {
      os << "dfs";
      for (int d : dfs) {
        os << ' ' << d;
      }
      os << "\n";
    }
    return os.str();
  }

  static bool Parse(const std::string& text, Case& out) {
    std::istringstream is(text);
    std::string line;
    bool any = false;
    while (std::getline(is, line)) {
      std::istringstream ls(line);
      std::string key;
      if (!(ls >> key)) {
        continue;
      }
      if (key == "family") {
        ls >> out.family;
        any = true;
      } else if (key == "hdr") {
        out.hdr.clear();
        int v;
        while (ls >> v) {
          out.hdr.push_back(v);
        }
      } else if (key == "recw") {
        ls >> out.recw;
      } else if (key == "prog") {
        out.prog.clear();
        int v;
        while (ls >> v) {
          out.prog.push_back(v);
        }
      } else if (key == "tape") {
        out.tape.clear();
        int v;
        while (ls >> v) {
          out.tape.push_back(static_cast<std::uint8_t>(v));
        }
      } else if (key == "dfs") {
        out.dfs.clear();
        int v;
        while (ls >> v) {
          out.dfs.push_back(v);
        }
      }  // unknown keys (comments, verdicts) are ignored
    }
    return any;
  }

  static bool Load(const std::string& path, Case& out) {
    std::ifstream in(path);
    if (!in) {
      return false;
    }
    std::stringstream ss;
    ss << in.rdbuf();
    return Parse(ss.str(), out);
  }

  std::uint64_t ProgHash() const {
    std::uint64_t h = 1469598103934665603ull;
    auto mix = [&](std::uint64_t v) {
      h = (h ^ v) * 1099511628211ull;
    };
    for (char c : family) {
      mix(static_cast<unsigned char>(c));
    }
    mix(0xfff1);
    for (int v : hdr) {
      mix(static_cast<std::uint32_t>(v));
    }
    mix(0xfff2);
    for (int v : prog) {
      mix(static_cast<std::uint32_t>(v));
    }
    return h;
  }
};

// tag strings composed at run time (prefix + name) live for the whole process
inline const char* Intern(const std::string& s) {
  static auto* pool = new std::set<std::string>;
  return pool->insert(s).first->c_str();
}

struct Verdict {
  bool ok = true;
  std::string msg;            // first failed oracle clause
  bool nontrivial = false;    // by the family's stated rule
  bool inconclusive = false;  // step budget exceeded (livelock suspected) - never a violation
  bool excluded = false;      // shape hit a known finding and was skipped
  std::uint64_t hash = 0;     // identifies the distinct execution: (program, effective trace)
  std::vector<const char*> tags;
  std::string detail;  // free text for samples (trace etc.)

  void Fail(const std::string& m);
};

// C03 re-runs other properties' generators under the release oracle only (env VF_RELEASE_ONLY=1): a verdict is kept
// only if it speaks about ownership (Tracked life-cycle, balance, heap ledger); crashes / sanitizer reports always count.
inline bool ReleaseOnly() {
  static const bool v = std::getenv("VF_RELEASE_ONLY") != nullptr;
  return v;
}
inline bool IsReleaseMessage(const std::string& m) {
  static const char* const k[] = {"destroyed", "constructed != destroyed", "heap blocks", "moved-from", "garbage", "torn",
                                  "frame local", "released", "remain"};
  for (const char* w : k) {
    if (m.find(w) != std::string::npos) {
      return true;
    }
  }
  return false;
}

inline void Verdict::Fail(const std::string& m) {
  if (ReleaseOnly() && !IsReleaseMessage(m)) {
    return;  // another property's clause
  }
  if (ok) {
    ok = false;
    msg = m;
  }
}

inline std::uint64_t Mix64(std::uint64_t a, std::uint64_t b) {
  std::uint64_t x = a ^ (b + 0x9e3779b97f4a7c15ull + (a << 6) + (a >> 2));
  x ^= x >> 33;
  x *= 0xff51afd7ed558ccdull;
  x ^= x >> 33;
  return x;
}

}  // namespace vf
