// Allocation ledger: global operator new/delete replaced (malloc-backed so ASan still sees the blocks).
// Counters are per OS thread; fibers share the host thread's counters. Include in exactly one TU per binary
// with VF_LEDGER_IMPL defined.
#pragma once

#include <cstddef>
#include <cstdlib>
#include <new>

namespace vf {

struct Ledger {
  long news = 0;
  long deletes = 0;
  long Live() const {
    return news - deletes;
  }
};

inline Ledger& L() {
  static thread_local Ledger l;
  return l;
}

}  // namespace vf

#ifdef VF_LEDGER_IMPL
void* operator new(std::size_t n) {
  ++vf::L().news;
  void* p = std::malloc(n != 0 ? n : 1);
  if (p == nullptr) {
    std::abort();
  }
  return p;
}
void* operator new[](std::size_t n) {
  return operator new(n);
}
void* operator new(std::size_t n, const std::nothrow_t&) noexcept {
  ++vf::L().news;
  return std::malloc(n != 0 ? n : 1);
}
void* operator new[](std::size_t n, const std::nothrow_t&) noexcept {
  ++vf::L().news;
  return std::malloc(n != 0 ? n : 1);
}
void* operator new(std::size_t n, std::align_val_t al) {
  ++vf::L().news;
  void* p = nullptr;
  if (posix_memalign(&p, static_cast<std::size_t>(al) < sizeof(void*) ? sizeof(void*) : static_cast<std::size_t>(al),
                     n != 0 ? n : 1) != 0) {
    std::abort();
  }
  return p;
}
void* operator new[](std::size_t n, std::align_val_t al) {
  return operator new(n, al);
}
void operator delete(void* p) noexcept {
  if (p != nullptr) {
    ++vf::L().deletes;
    std::free(p);
  }
}
void operator delete[](void* p) noexcept {
  operator delete(p);
}
void operator delete(void* p, std::size_t) noexcept {
  operator delete(p);
}
void operator delete[](void* p, std::size_t) noexcept {
  operator delete(p);
}
void operator delete(void* p, std::align_val_t) noexcept {
  operator delete(p);
}
void operator delete[](void* p, std::align_val_t) noexcept {
  operator delete(p);
}
void operator delete(void* p, std::size_t, std::align_val_t) noexcept {
  operator delete(p);
}
void operator delete[](void* p, std::size_t, std::align_val_t) noexcept {
  operator delete(p);
}
void operator delete(void* p, const std::nothrow_t&) noexcept {
  operator delete(p);
}
void operator delete[](void* p, const std::nothrow_t&) noexcept {
  operator delete(p);
}
#endif
