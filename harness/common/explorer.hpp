// Explorer: owner of every scheduling decision of YACLib's fiber fault layer (via the YACLIB_VERIF hook).
// A schedule is a tape of bytes; each query with more than one alternative consumes one byte.
#pragma once

#include <yaclib/fault/verif_hook.hpp>

#include <cstddef>
#include <cstdint>
#include <utility>
#include <vector>

namespace vf {

struct Explorer final : yaclib::verif::Hook {
  enum Mode { kTape, kDfs };
  Mode mode = kTape;

  // --- tape mode ---
  std::vector<std::uint8_t> tape;
  std::size_t pos = 0;

  // --- dfs mode (stateless search): (value, arity) per branching query ---
  std::vector<std::pair<std::uint16_t, std::uint16_t>> dfs;
  std::size_t dpos = 0;
  unsigned preempt_bound = 3, preempts = 0;
  unsigned weak_bound = 1, weaks = 0;

  // --- common ---
  unsigned run = 0;  // consecutive queries without a switch; forces a yield in the fair default
  std::uint64_t queries = 0;
  std::uint64_t budget = 400000;
  bool over_budget = false;

  // effective trace
  std::uint64_t trace_hash = 1469598103934665603ull;
  unsigned resumes = 0, switches = 0;
  std::vector<std::uint64_t> ids;  // fiber ids in order of first appearance
  int last = -1;
  std::vector<std::uint8_t> trace;  // normalised ids, capped
  static constexpr std::size_t kTraceCap = 4096;
  // effective tape: one byte per answered query; replaying it in tape mode reproduces the run (dfs -> replay file)
  bool record_eff = false;
  std::vector<std::uint8_t> eff;

  void ResetRun() {
    pos = 0;
    dpos = 0;
    preempts = 0;
    weaks = 0;
    run = 0;
    queries = 0;
    over_budget = false;
    trace_hash = 1469598103934665603ull;
    resumes = 0;
    switches = 0;
    ids.clear();
    last = -1;
    trace.clear();
    eff.clear();
    // first allocations must not fall into a case's allocation-balance window
    ids.reserve(16);
    trace.reserve(256);
    if (record_eff) {
      eff.reserve(1024);
    }
    if (mode == kDfs) {
      dfs.reserve(256);
    }
  }

  template <typename T>
  T Eff(T answer, std::uint8_t byte) {
    if (record_eff) {
      eff.push_back(byte);
    }
    return answer;
  }

  bool TapeLeft() const {
    return pos < tape.size();
  }

  // n alternatives, returns value in [0,n); in the fair default returns 0
  unsigned Choose(unsigned n) {
    if (n <= 1) {
      return 0;
    }
    if (mode == kTape) {
      if (pos < tape.size()) {
        return tape[pos++] % n;
      }
      return 0;
    }
    if (dpos < dfs.size()) {
      dfs[dpos].second = static_cast<std::uint16_t>(n);
      return dfs[dpos++].first % n;
    }
    dfs.emplace_back(0, static_cast<std::uint16_t>(n));
    ++dpos;
    return 0;
  }

  bool Tick() {
    if (++queries > budget) {
      over_budget = true;
    }
    return over_budget;
  }

  bool Fair() {
    if (++run >= 64) {
      run = 0;
      return true;
    }
    return false;
  }

  bool Preempt() override {
    const bool p = PreemptImpl();
    return Eff(p, p ? 255 : 0);
  }

  bool PreemptImpl() {
    if (Tick()) {
      return Fair();
    }
    if (mode == kTape) {
      if (pos < tape.size()) {
        bool p = tape[pos++] >= 192;
        if (p) {
          run = 0;
        } else if (Fair()) {
          p = true;
        }
        return p;
      }
      return Fair();
    }
    if (preempts >= preempt_bound) {
      return Fair();
    }
    bool p = Choose(2) == 1;
    if (p) {
      ++preempts;
      run = 0;
      return true;
    }
    return Fair();
  }

  std::size_t Pick(std::size_t n) override {
    run = 0;
    if (n <= 1) {
      return 0;
    }
    const std::size_t v = Tick() ? 0 : Choose(static_cast<unsigned>(n > 256 ? 256 : n));
    return Eff(v, static_cast<std::uint8_t>(v));
  }

  bool FailWeak() override {
    const bool f = FailWeakImpl();
    return Eff(f, f ? 255 : 0);
  }

  bool FailWeakImpl() {
    if (Tick()) {
      return false;
    }
    if (mode == kTape) {
      if (pos < tape.size()) {
        return tape[pos++] >= 240;
      }
      return false;
    }
    if (weaks >= weak_bound) {
      return false;
    }
    bool f = Choose(2) == 1;
    weaks += f;
    return f;
  }

  std::uint64_t Rand(std::uint64_t max) override {
    if (max <= 1) {
      return 0;
    }
    std::uint64_t v = 0;
    if (Tick()) {
      v = 0;
    } else if (mode == kTape) {
      v = pos < tape.size() ? tape[pos++] % max : 0;
    } else {
      // dfs: only the two extremes (capped so that the answer fits one tape byte)
      v = Choose(2) == 1 ? (max - 1 > 255 ? 255 : max - 1) : 0;
    }
    return Eff(v, static_cast<std::uint8_t>(v));
  }

  void OnResume(std::uint64_t fiber_id) override {
    int idx = -1;
    for (std::size_t i = 0; i != ids.size(); ++i) {
      if (ids[i] == fiber_id) {
        idx = static_cast<int>(i);
        break;
      }
    }
    if (idx < 0) {
      idx = static_cast<int>(ids.size());
      ids.push_back(fiber_id);
    }
    ++resumes;
    if (idx != last) {
      ++switches;
      last = idx;
    }
    // identifies the execution: which fiber was resumed at which decision point
    trace_hash = (trace_hash ^ static_cast<std::uint64_t>(idx + 1)) * 1099511628211ull;
    trace_hash = (trace_hash ^ queries) * 1099511628211ull;
    if (trace.size() < kTraceCap) {
      trace.push_back(static_cast<std::uint8_t>(idx));
    }
  }

  // dfs: advance to the next schedule; false when the bounded space is exhausted
  bool DfsNext() {
    while (!dfs.empty()) {
      auto& [v, n] = dfs.back();
      if (v + 1 < n) {
        ++v;
        break;
      }
      dfs.pop_back();
    }
    return !dfs.empty();
  }

  ~Explorer() = default;
};

}  // namespace vf
