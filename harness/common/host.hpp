// Host thread: fibers run on a dedicated OS thread that never throws (ASan's idea of that thread's stack is
// unreliable after the first ucontext switch); rapidcheck stays on the main thread.
#pragma once

#include <condition_variable>
#include <functional>
#include <mutex>
#include <thread>

namespace vf {

class Host {
 public:
  Host() : _th([this] { Loop(); }) {
  }
  ~Host() {
    {
      std::lock_guard g{_m};
      _quit = true;
    }
    _cv.notify_all();
    _th.join();
  }
  // runs f on the host thread and waits for it; f must not throw
  void Run(const std::function<void()>& f) {
    std::unique_lock l{_m};
    _job = &f;
    _done = false;
    _cv.notify_all();
    _cv.wait(l, [&] { return _done; });
  }

 private:
  void Loop() {
    std::unique_lock l{_m};
    for (;;) {
      _cv.wait(l, [&] { return _quit || _job != nullptr; });
      if (_job == nullptr) {
        return;
      }
      const auto* job = _job;
      l.unlock();
      (*job)();
      l.lock();
      _job = nullptr;
      _done = true;
      _cv.notify_all();
    }
  }
  std::mutex _m;
  std::condition_variable _cv;
  const std::function<void()>* _job = nullptr;
  bool _done = false, _quit = false;
  std::thread _th;
};

inline Host& TheHost() {
  static Host host;
  return host;
}

}  // namespace vf
