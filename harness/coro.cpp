// C13: coroutines resume once, after the awaited event, with its outcome, where asked.
#include "common/driver.hpp"
#include "common/fibers.hpp"
#include "common/host.hpp"

#include <yaclib/async/contract.hpp>
#include <yaclib/async/shared_contract.hpp>
#include <yaclib/async/wait.hpp>
#include <yaclib/coro/await.hpp>
#include <yaclib/coro/await_on.hpp>
#include <yaclib/coro/await_sticky.hpp>
#include <yaclib/coro/current_executor.hpp>
#include <yaclib/coro/future.hpp>
#include <yaclib/coro/on.hpp>
#include <yaclib/coro/shared_future.hpp>
#include <yaclib/coro/task.hpp>
#include <yaclib/coro/yield.hpp>
#include <yaclib/exe/strand.hpp>
#include <yaclib/exe/submit.hpp>
#include <yaclib/runtime/fair_thread_pool.hpp>

#include <cstdio>
#include <string>
#include <vector>

namespace {

using vf::Case;
using vf::Explorer;
using vf::Verdict;

struct Boom {
  int id;
};
struct Rec {
  int kind, a, b;
};
enum Kind {
  kAwaitFuture,
  kAwait1,
  kAwait2,
  kOn,
  kAwaitOn1,
  kYield,
  kInnerTask,
  kCurrentExecutor,
  kAwaitShared,
  kAwaitMixed,
  kAwaitSticky1,
  kAwaitSticky2,
  kAwaitOn2,
  kAwaitIter,
  kOnStopped,
  kAwaitOnStopped,
  kThrow,
  kAwaitSharedVia,
  kKindN
};
const char* const kKindName[] = {"co_await f",       "Await(f)",        "Await(f,g)",       "On(e)",        "AwaitOn(e,f)",
                                 "kYield",           "co_await Task",   "CurrentExecutor",  "co_await sf",  "Await(sf,f)",
                                 "AwaitSticky(f)",   "AwaitSticky(f,g)", "AwaitOn(e,f,g)",  "Await(begin,n)", "On(stopped)",
                                 "AwaitOn(stopped,f)", "throw",         "Await(sf)"};

int Needs(const Rec& r) {
  switch (r.kind % kKindN) {
    case kAwaitFuture:
    case kAwait1:
    case kAwaitOn1:
    case kAwaitMixed:
    case kAwaitSticky1:
    case kAwaitOnStopped:
      return 1;
    case kAwait2:
    case kAwaitSticky2:
    case kAwaitOn2:
    case kAwaitIter:
      return 2;
    default:
      return 0;
  }
}

struct World {
  yaclib::IExecutor* pool[2] = {nullptr, nullptr};  // [1] may be a Strand over its one-worker pool (same worker fiber)
  yaclib::FairThreadPool* stopped = nullptr;
  yaclib::FairThreadPool* late[3] = {nullptr, nullptr, nullptr};  // one per coroutine: stopped by the coroutine itself
  std::uint64_t late_worker[3] = {0, 0, 0};
  std::uint64_t worker[2] = {0, 0};
  std::vector<yaclib::Future<int>> fut;  // awaited unique futures (each used once)
  std::vector<int> outcome, begun;       // 0 value, 1 exception, 2 error
  yaclib::SharedFuture<int> sf[2];
  int sf_outcome[2] = {0, 0}, sf_begun[2] = {0, 0};
  const char* err = nullptr;
  int locals_alive = 0, locals_made = 0;
  int resumes = 0, awaits = 0;
  int raced = 0;
  unsigned kinds_run = 0;     // bit per record kind whose co_await was reached
  unsigned variants_run = 0;  // bit 0: executor stopped while the coroutine ran on it, 1: awaited future completed by a
                              // coroutine, 2: Await(task) on an lvalue, 3: co_return of a throwing copy
  void Err(const char* e) {
    if (err == nullptr) {
      err = e;
    }
  }
};
struct Local {
  World* w;
  explicit Local(World* ww) : w{ww} {
    ++w->locals_alive;
    ++w->locals_made;
  }
  Local(const Local&) = delete;
  ~Local() {
    --w->locals_alive;
  }
};

// A future that is completed by a coroutine reaching its end (final-suspend / symmetric-transfer path of the library)
// instead of by Promise::Set: its awaiter is resumed through Next(), not through Call()/Here().
yaclib::Future<int> Feeder(yaclib::Future<int> gate) {
  co_await yaclib::Await(gate);
  co_return std::move(gate).Touch();
}

// co_return of an lvalue that is not a local: the value is copied into the Result and the copy throws
struct Bomb {
  int x = 0;
  Bomb() = default;
  Bomb(const Bomb&) {
    throw Boom{77};
  }
  Bomb(Bomb&&) noexcept = default;
  Bomb& operator=(const Bomb&) = default;
  Bomb& operator=(Bomb&&) noexcept = default;
};
const Bomb kBomb;
template <typename Ret>
Ret CopyOut(const Bomb& b) {
  co_return b;
}

yaclib::Task<int> InnerTask(int x) {
  co_return x + 1;
}

struct Expect {
  long acc = 0;
  int state = 0;  // expected final state of the coroutine: 0 value, 1 exception(Boom 77), 2 StopError
};

// The script interpreter; Ret is Future<int>, Task<int> or SharedFuture<int>.
template <typename Ret>
Ret Script(World& w, std::vector<Rec> recs, int first_fut, int id) {
  Local guard{&w};
  int next = first_fut;
  int acc = 0;
  int own = -1;  // the coroutine's own executor: -1 none (inline), 0/1 = pool index
  auto on_worker = [&](int e) { return yaclib_std::this_thread::get_id() == w.worker[e]; };
  (void)id;
  for (auto r : recs) {
    ++w.awaits;
    const int kind = r.kind % kKindN;
    w.kinds_run |= 1u << kind;
    if ((kind == kOnStopped || kind == kAwaitOnStopped) && r.b % 3 != 0) {
      w.variants_run |= 1u;
    }
    if (kind == kInnerTask && r.b % 4 != 0) {
      w.variants_run |= 4u;
    }
    if (kind == kThrow && r.b % 4 != 0) {
      w.variants_run |= 8u;
    }
    int used = -1;  // index of the (first) unique future consumed by this record
    try {
      switch (kind) {
        case kAwaitFuture: {
          const int i = used = next++;
          w.raced += w.begun[static_cast<std::size_t>(i)] == 0;
          const int v = co_await std::move(w.fut[static_cast<std::size_t>(i)]);
          ++w.resumes;
          if (!w.begun[static_cast<std::size_t>(i)]) {
            w.Err("co_await Future resumed before the awaited Set began");
          }
          if (w.outcome[static_cast<std::size_t>(i)] != 0) {
            w.Err("co_await Future returned a value although the awaited future failed");
          }
          if (v != 100 + i) {
            w.Err("co_await Future returned a wrong value");
          }
          acc += v;
          break;
        }
        case kAwait1:
        case kAwaitSticky1: {
          const int i = used = next++;
          auto& f = w.fut[static_cast<std::size_t>(i)];
          w.raced += w.begun[static_cast<std::size_t>(i)] == 0;
          if (kind == kAwait1) {
            co_await yaclib::Await(f);
          } else {
            co_await yaclib::AwaitSticky(f);
            if (own >= 0 && !on_worker(own)) {
              w.Err("AwaitSticky(f) resumed outside the coroutine's own executor");
            }
          }
          ++w.resumes;
          if (!w.begun[static_cast<std::size_t>(i)]) {
            w.Err("Await resumed before the awaited Set began");
          }
          if (!f.Valid() || !f.Ready()) {
            w.Err("Await left the future invalid or not ready");
          } else if (w.outcome[static_cast<std::size_t>(i)] == 0 && std::as_const(f).Touch().Ok() != 100 + i) {
            w.Err("future awaited with Await lost its value");
          }
          break;
        }
        case kAwait2:
        case kAwaitSticky2:
        case kAwaitOn2:
        case kAwaitIter: {
          const int i = used = next++;
          const int j = next++;
          auto& f = w.fut[static_cast<std::size_t>(i)];
          auto& g = w.fut[static_cast<std::size_t>(j)];
          w.raced += w.begun[static_cast<std::size_t>(i)] == 0 || w.begun[static_cast<std::size_t>(j)] == 0;
          const int e = r.a % 2;
          if (kind == kAwait2) {
            co_await yaclib::Await(f, g);
          } else if (kind == kAwaitSticky2) {
            co_await yaclib::AwaitSticky(f, g);
            if (own >= 0 && !on_worker(own)) {
              w.Err("AwaitSticky(f,g) resumed outside the coroutine's own executor");
            }
          } else if (kind == kAwaitOn2) {
            co_await yaclib::AwaitOn(*w.pool[e], f, g);
            own = e;
            if (!on_worker(e)) {
              w.Err("after AwaitOn(e,f,g) the coroutine does not run on e");
            }
          } else {
            co_await yaclib::Await(w.fut.begin() + i, std::size_t{2});
          }
          ++w.resumes;
          if (!w.begun[static_cast<std::size_t>(i)] || !w.begun[static_cast<std::size_t>(j)]) {
            w.Err("multi-await resumed before every awaited Set began");
          }
          if (!f.Valid() || !g.Valid() || !f.Ready() || !g.Ready()) {
            w.Err("multi-await left a future invalid or not ready");
          }
          break;
        }
        case kOn: {
          const int e = r.a % 2;
          co_await yaclib::On(*w.pool[e]);
          own = e;
          ++w.resumes;
          if (!on_worker(e)) {
            w.Err("after On(e) the coroutine does not run on e");
          }
          break;
        }
        case kAwaitOn1: {
          const int i = used = next++;
          const int e = r.a % 2;
          w.raced += w.begun[static_cast<std::size_t>(i)] == 0;
          co_await yaclib::AwaitOn(*w.pool[e], w.fut[static_cast<std::size_t>(i)]);
          own = e;
          ++w.resumes;
          if (!w.begun[static_cast<std::size_t>(i)]) {
            w.Err("AwaitOn resumed before the awaited Set began");
          }
          if (!on_worker(e)) {
            w.Err("after AwaitOn(e,f) the coroutine does not run on e");
          }
          break;
        }
        case kYield:
          co_await yaclib::kYield;
          ++w.resumes;
          if (own >= 0 && !on_worker(own)) {
            w.Err("after kYield the coroutine does not run on its own executor");
          }
          break;
        case kInnerTask: {
          int v = 0;
          if (r.b % 4 == 0) {
            v = co_await InnerTask(r.a);
          } else if (r.b % 4 == 1) {
            auto t = InnerTask(r.a);
            co_await yaclib::Await(t);
            v = std::move(t).Touch().Ok();
          } else {
            // Await(task) on an lvalue: the Task completes in place, its Result is read through the handle and the
            // completed Task is destroyed at the end of the scope (one core for b%4==2, a two-core chain for 3)
            auto t = r.b % 4 == 2 ? InnerTask(r.a) : InnerTask(r.a - 1).ThenInline([](int x) {
              return x + 1;
            });
            co_await yaclib::Await(t);
            if (!t.Ready()) {
              w.Err("Await(task) resumed before the Task completed");
            }
            v = std::as_const(t).Touch().Ok();
          }
          ++w.resumes;
          if (v != r.a + 1) {
            w.Err("co_await Task / Await(task) returned a wrong value");
          }
          break;
        }
        case kCurrentExecutor: {
          auto& e = co_await yaclib::CurrentExecutor();
          ++w.resumes;
          if (own >= 0 && &e != static_cast<yaclib::IExecutor*>(w.pool[own])) {
            w.Err("CurrentExecutor() is not the executor named by the last On/AwaitOn");
          }
          break;
        }
        case kAwaitShared: {
          const int s = r.a % 2;
          w.raced += w.sf_begun[s] == 0;
          const int v = co_await w.sf[s];
          ++w.resumes;
          if (!w.sf_begun[s]) {
            w.Err("co_await SharedFuture resumed before its Set began");
          }
          if (w.sf_outcome[s] != 0 || v != 500 + s) {
            w.Err("co_await SharedFuture returned a wrong value");
          }
          break;
        }
        case kAwaitSharedVia: {
          const int s = r.a % 2;
          w.raced += w.sf_begun[s] == 0;
          co_await yaclib::Await(w.sf[s]);
          ++w.resumes;
          if (!w.sf_begun[s] || !w.sf[s].Ready()) {
            w.Err("Await(sf) resumed before the SharedFuture was ready");
          }
          break;
        }
        case kAwaitMixed: {
          const int i = used = next++;
          const int s = r.a % 2;
          w.raced += w.sf_begun[s] == 0 || w.begun[static_cast<std::size_t>(i)] == 0;
          co_await yaclib::Await(w.sf[s], w.fut[static_cast<std::size_t>(i)]);
          ++w.resumes;
          if (!w.sf_begun[s] || !w.begun[static_cast<std::size_t>(i)]) {
            w.Err("Await(sf,f) resumed before both were set");
          }
          if (!w.sf[s].Ready() || !w.fut[static_cast<std::size_t>(i)].Ready()) {
            w.Err("Await(sf,f) left something not ready");
          }
          break;
        }
        case kOnStopped:
          if (r.b % 3 == 0) {
            co_await yaclib::On(*w.stopped);
          } else {
            // the executor is stopped while the coroutine is running on it (its own executor already is the one named)
            auto& late = *w.late[id % 3];
            co_await yaclib::On(late);
            if (yaclib_std::this_thread::get_id() != w.late_worker[id % 3]) {
              w.Err("after On(e) the coroutine does not run on e");
            }
            late.Stop();
            if (r.b % 3 == 1) {
              co_await yaclib::On(late);
            } else {
              co_await yaclib::kYield;
            }
          }
          ++w.resumes;
          w.Err("code after co_await On(stopped executor) / kYield on a stopped own executor ran");
          break;
        case kAwaitOnStopped: {
          const int i = used = next++;
          if (r.b % 3 == 0) {
            co_await yaclib::AwaitOn(*w.stopped, w.fut[static_cast<std::size_t>(i)]);
          } else {
            auto& late = *w.late[id % 3];
            co_await yaclib::On(late);
            late.Stop();
            co_await yaclib::AwaitOn(late, w.fut[static_cast<std::size_t>(i)]);  // ready or pending: e refuses either way
          }
          ++w.resumes;
          w.Err("code after co_await AwaitOn(stopped executor, f) ran");
          break;
        }
        default:
          ++w.resumes;
          // "co_return and escaping exceptions become the coroutine's own Result": either the script throws, or it
          // awaits a coroutine (Future / Task / SharedFuture) whose co_return copies a value and that copy throws
          if (r.b % 4 == 1) {
            (void)co_await CopyOut<yaclib::Future<Bomb>>(kBomb);
            w.Err("co_return of a value whose copy throws did not become the Exception state (Future)");
          } else if (r.b % 4 == 2) {
            (void)co_await CopyOut<yaclib::Task<Bomb>>(kBomb);
            w.Err("co_return of a value whose copy throws did not become the Exception state (Task)");
          } else if (r.b % 4 == 3) {
            auto sf = CopyOut<yaclib::SharedFuture<Bomb>>(kBomb);
            if (sf.Get().State() != yaclib::ResultState::Exception) {
              w.Err("co_return of a value whose copy throws did not become the Exception state (SharedFuture)");
            }
          }
          throw Boom{77};
      }
      // A plain (inline) await that actually suspended makes the coroutine inherit the awaited core's executor, like a
      // continuation does; the property only fixes where On / AwaitOn / Sticky resume, so the model forgets the
      // coroutine's own executor after such awaits (a first version kept it and raised a false alarm after kYield).
      if (kind == kAwaitFuture || kind == kAwait1 || kind == kAwait2 || kind == kAwaitIter || kind == kAwaitShared ||
          kind == kAwaitSharedVia || kind == kAwaitMixed || kind == kInnerTask) {
        own = -2;
      }
    } catch (const Boom& b) {
      own = -2;
      if (b.id == 77) {
        throw;
      }
      ++w.resumes;
      if (kind != kAwaitFuture || used < 0 || w.outcome[static_cast<std::size_t>(used)] != 1 || b.id != used) {
        w.Err("unexpected exception rethrown by co_await");
      }
    } catch (const yaclib::ResultError<yaclib::StopError>&) {
      own = -2;
      ++w.resumes;
      const bool from_future = kind == kAwaitFuture && used >= 0 && w.outcome[static_cast<std::size_t>(used)] == 2;
      const bool from_shared = kind == kAwaitShared && w.sf_outcome[r.a % 2] == 2;
      if (!from_future && !from_shared) {
        w.Err("unexpected error rethrown by co_await");
      }
    } catch (const yaclib::ResultEmpty&) {
      ++w.resumes;
      w.Err("co_await resumed on an empty Result");
    }
  }
  co_return acc;
}

// what the script must produce, computed from the script alone
Expect Model(const World& w, const std::vector<Rec>& recs, int first_fut) {
  Expect x;
  int next = first_fut;
  for (auto r : recs) {
    const int kind = r.kind % kKindN;
    if (kind == kAwaitFuture) {
      const int i = next;
      if (w.outcome[static_cast<std::size_t>(i)] == 0) {
        x.acc += 100 + i;
      }
    }
    next += Needs(r);
    if (kind == kOnStopped || kind == kAwaitOnStopped) {
      x.state = 2;
      return x;
    }
    if (kind == kThrow) {
      x.state = 1;
      return x;
    }
  }
  return x;
}

class Coro final : public vf::Family {
 public:
  const char* Name() const final {
    return "coro";
  }
  const char* Property() const final {
    return "C13";
  }
  const char* Rule() const final {
    return "case = 1..3 coroutines (returning Future, Task started by ToFuture, or SharedFuture) each interpreting a "
           "generated script of <= 5 awaits from {co_await Future / SharedFuture / Task, Await / AwaitSticky / AwaitOn of "
           "one or two (unique, shared, mixed; variadic and iterator), On(e), kYield, CurrentExecutor, On / AwaitOn of a "
           "stopped executor, escaping throw} x awaited objects already ready or completed by a producer fiber (value / "
           "exception / error) x two one-worker pools + one stopped pool x schedule tape; oracle = every co_await "
           "resumes exactly once and only after the awaited Sets began, with the value or the rethrown failure, "
           "Await leaves futures valid and ready, after On/AwaitOn/Sticky/kYield the coroutine runs on the named / own "
           "executor (worker fiber identity), stopped executor => coroutine completes with StopError, nothing after the "
           "await runs and the frame local is destroyed exactly once, co_return / escaping exception become the "
           "coroutine's Result; non-trivial = some awaited object was not yet fulfilled when the coroutine reached the "
           "co_await; distinct = (program, fiber trace)";
  }
  rc::Gen<Case> Gen() const final {
    return rc::gen::exec([]() {
      Case c;
      c.recw = 4;
      const int k = vf::Pick(1, 4);
      c.hdr = {k, vf::Pick(0, 1 << 16), vf::Pick(0, 1 << 12), vf::Pick(0, 27), vf::Pick(0, 18)};
      const int n = vf::Pick(1, 11);
      for (int i = 0; i < n; ++i) {
        c.prog.push_back(vf::Pick(0, k));
        // stopped-executor and throw records are rarer: they end the script
        int kind = vf::Pick(0, kKindN + 6);
        if (kind >= kKindN) {
          kind = kind % 6 == 0 ? kAwaitFuture : kind % 6 == 1 ? kAwaitShared : kind % 6 == 2 ? kAwait2 : kind % 6 == 3 ? kAwaitOn1 : kind % 6 == 4 ? kOn : kAwaitSticky1;
        }
        c.prog.push_back(kind);
        c.prog.push_back(vf::Pick(0, 8));
        c.prog.push_back(vf::Pick(0, 8));
      }
      c.tape = *vf::GenTape(400);
      return c;
    });
  }
  std::vector<Case> DfsPrograms(int tier) const final {
    std::vector<Case> out;
    const int kinds[] = {kAwaitFuture, kAwait2, kAwaitOn1, kAwaitShared, kAwaitSticky2, kAwaitOn2, kAwaitMixed, kAwaitIter};
    for (int i = 0; i < (tier == 0 ? 4 : 8); ++i) {
      for (int ret = 0; ret < (tier == 0 ? 1 : 3); ++ret) {
        Case c;
        c.recw = 4;
        c.hdr = {1, 0, 0, ret, 0};  // nothing pre-ready
        c.prog = {0, kOn, 0, 0, 0, kinds[i], 1, 0};
        out.push_back(c);
      }
    }
    return out;
  }
  std::string Describe(const Case& c) const final {
    const int k = 1 + (c.H(0) + 2) % 3;
    static const char* const kRet[] = {"Future", "Task", "SharedFuture"};
    std::string s = "coroutines=" + std::to_string(k) + " returns=[";
    for (int i = 0; i < k; ++i) {
      s += std::string(kRet[(c.H(3) / (i == 0 ? 1 : i == 1 ? 3 : 9)) % 3]) + " ";
    }
    s += "] ready_mask=" + std::to_string(c.H(1)) + " outcome_seed=" + std::to_string(c.H(2)) +
         " futures=" + (c.H(4) % 3 == 0 ? "contracts" : c.H(4) % 3 == 1 ? "completed-by-coroutines" : "mixed") +
         (c.H(4) / 3 % 2 == 1 ? " e1=strand" : "") + " scripts=[";
    for (std::size_t i = 0; i < c.Records(); ++i) {
      const int* r = c.Rec(i);
      s += std::string(i != 0 ? " " : "") + "c" + std::to_string(r[0] % k) + ":" + kKindName[r[1] % kKindN];
    }
    return s + "] tape_len=" + std::to_string(c.tape.size());
  }
  Verdict Run(const Case& c, Explorer& ex) final {
    Verdict v;
    vf::TheHost().Run([&] { RunOnHost(c, ex, v); });
    return v;
  }

 private:
  void RunOnHost(const Case& c, Explorer& ex, Verdict& v) {
    const int k = 1 + (c.H(0) + 2) % 3;
    std::vector<std::vector<Rec>> scripts(static_cast<std::size_t>(k));
    for (std::size_t i = 0; i < c.Records(); ++i) {
      const int* r = c.Rec(i);
      auto& s = scripts[static_cast<std::size_t>(r[0]) % scripts.size()];
      if (s.size() < 5) {
        s.push_back({r[1], r[2], r[3]});
      }
    }
    const int ready_mask = c.H(1), oseed = c.H(2);
    World w;
    const char* final_err = nullptr;
    bool all_normal = true;
    const bool done = vf::RunFibers(ex, [&] {
      yaclib::FairThreadPool p0{1}, p1{1}, ps{1};
      w.pool[0] = &p0;
      w.pool[1] = &p1;
      auto strand1 = yaclib::MakeStrand(&p1);
      if (c.H(4) / 3 % 2 == 1) {
        w.pool[1] = strand1.Get();  // executor 1 is a Strand: its jobs still run on p1's only worker
      }
      w.stopped = &ps;
      ps.Stop();
      yaclib::FairThreadPool l0{1}, l1{1}, l2{1};
      w.late[0] = &l0;
      w.late[1] = &l1;
      w.late[2] = &l2;
      for (int e = 0; e < 2; ++e) {
        auto [f, p] = yaclib::MakeContract<int>();
        yaclib::Submit(*w.pool[e], [&w, e, p = std::move(p)]() mutable {
          w.worker[e] = yaclib_std::this_thread::get_id();
          std::move(p).Set(1);
        });
        (void)std::move(f).Get();
      }
      for (int e = 0; e < 3; ++e) {
        auto [f, p] = yaclib::MakeContract<int>();
        yaclib::Submit(*w.late[e], [&w, e, p = std::move(p)]() mutable {
          w.late_worker[e] = yaclib_std::this_thread::get_id();
          std::move(p).Set(1);
        });
        (void)std::move(f).Get();
      }
      int total = 0;
      for (auto& s : scripts) {
        for (auto& r : s) {
          total += Needs(r);
        }
      }
      std::vector<yaclib::Promise<int>> ps_(static_cast<std::size_t>(total));
      w.outcome.assign(static_cast<std::size_t>(total), 0);
      w.begun.assign(static_cast<std::size_t>(total), 0);
      w.fut.resize(static_cast<std::size_t>(total));
      for (int i = 0; i < total; ++i) {
        // contracts may carry executor 1 (MakeContractOn): a coroutine resumed inline by the producer then inherits
        // "executor 1" as its own although it runs on the producer's fiber
        auto [f, p] = c.H(4) / 6 % 3 == 1 ? [&] {
          auto [fo, po] = yaclib::MakeContractOn<int>(*w.pool[1]);
          return std::pair{std::move(fo).On(nullptr), std::move(po)};
        }()
                                          : [] {
                                              auto [fp, pp] = yaclib::MakeContract<int>();
                                              return std::pair{std::move(fp), std::move(pp)};
                                            }();
        const int feeder = c.H(4) % 3;  // 0: plain contracts, 1: every future ends a coroutine, 2: the odd ones do
        w.fut[static_cast<std::size_t>(i)] = feeder == 1 || (feeder == 2 && i % 2 == 1) ? Feeder(std::move(f)) : std::move(f);
        ps_[static_cast<std::size_t>(i)] = std::move(p);
        const int o = (oseed >> (2 * (i % 6))) & 3;
        w.outcome[static_cast<std::size_t>(i)] = o == 3 ? 1 : o == 2 ? 2 : 0;  // mostly values
      }
      yaclib::SharedPromise<int> sps[2];
      for (int s = 0; s < 2; ++s) {
        auto [f, p] = yaclib::MakeSharedContract<int>();
        w.sf[s] = std::move(f);
        sps[s] = std::move(p);
        w.sf_outcome[s] = ((oseed >> (10 + s)) & 3) == 3 ? 2 : 0;
      }
      auto fulfil = [&](int i) {
        auto& p = ps_[static_cast<std::size_t>(i)];
        w.begun[static_cast<std::size_t>(i)] = 1;
        const int o = w.outcome[static_cast<std::size_t>(i)];
        if (o == 0) {
          std::move(p).Set(100 + i);
        } else if (o == 1) {
          std::move(p).Set(std::make_exception_ptr(Boom{i}));
        } else {
          std::move(p).Set(yaclib::StopTag{});
        }
      };
      auto fulfil_shared = [&](int s) {
        w.sf_begun[s] = 1;
        if (w.sf_outcome[s] == 0) {
          std::move(sps[s]).Set(500 + s);
        } else {
          std::move(sps[s]).Set(yaclib::StopTag{});
        }
      };
      for (int i = 0; i < total; ++i) {
        if (((ready_mask >> (i % 14)) & 1) != 0) {
          fulfil(i);
        }
      }
      for (int s = 0; s < 2; ++s) {
        if (((ready_mask >> (14 + s)) & 1) != 0) {
          fulfil_shared(s);
        }
      }
      std::vector<yaclib::Future<int>> cs;
      std::vector<yaclib::SharedFuture<int>> css;
      std::vector<Expect> expect;
      std::vector<int> is_shared;
      int first = 0;
      int idx = 0;
      for (auto& s : scripts) {
        const int ret = (c.H(3) / (idx == 0 ? 1 : idx == 1 ? 3 : 9)) % 3;
        expect.push_back(Model(w, s, first));
        if (ret == 0) {
          cs.push_back(Script<yaclib::Future<int>>(w, s, first, idx));
          is_shared.push_back(0);
        } else if (ret == 1) {
          auto task = Script<yaclib::Task<int>>(w, s, first, idx);
          if (w.locals_made != static_cast<int>(cs.size() + css.size())) {
            w.Err("a Task coroutine body started before the Task was started");
          }
          cs.push_back(std::move(task).ToFuture());
          is_shared.push_back(0);
        } else {
          css.push_back(Script<yaclib::SharedFuture<int>>(w, s, first, idx));
          is_shared.push_back(1);
        }
        for (auto& r : s) {
          first += Needs(r);
        }
        ++idx;
      }
      yaclib_std::thread prod([&] {
        for (int i = 0; i < total; ++i) {
          if (((ready_mask >> (i % 14)) & 1) == 0) {
            vf::Point();
            fulfil(i);
          }
        }
        for (int s = 0; s < 2; ++s) {
          if (((ready_mask >> (14 + s)) & 1) == 0) {
            vf::Point();
            fulfil_shared(s);
          }
        }
      });
      yaclib::Wait(cs.begin(), cs.end());
      yaclib::Wait(css.begin(), css.end());
      prod.join();
      std::size_t iu = 0, is = 0;
      for (std::size_t i = 0; i < expect.size(); ++i) {
        yaclib::Result<int> r = is_shared[i] != 0 ? css[is++].Get() : std::move(cs[iu++]).Get();
        const auto& x = expect[i];
        all_normal &= x.state == 0;
        if (x.state == 0) {
          if (!r || std::as_const(r).Value() != x.acc) {
            final_err = "co_return value did not become the coroutine's Result";
          }
        } else if (x.state == 2) {
          if (r.State() != yaclib::ResultState::Error) {
            final_err = "coroutine resumed on a stopped executor did not complete with StopError";
          }
        } else {
          bool ok = false;
          if (r.State() == yaclib::ResultState::Exception) {
            try {
              std::rethrow_exception(std::as_const(r).Exception());
            } catch (const Boom& b) {
              ok = b.id == 77;
            } catch (...) {
            }
          }
          if (!ok) {
            final_err = "escaping exception did not become the coroutine's Result";
          }
        }
      }
      cs.clear();
      css.clear();
      w.fut.clear();
      w.sf[0] = {};
      w.sf[1] = {};
      p0.Stop();
      p1.Stop();
      l0.Stop();
      l1.Stop();
      l2.Stop();
      p0.Wait();
      p1.Wait();
      ps.Wait();
      l0.Wait();
      l1.Wait();
      l2.Wait();
    });
    v.inconclusive = ex.over_budget;
    int expected_awaits_min = 0;
    (void)expected_awaits_min;
    if (!done) {
      v.Fail("deadlock: a coroutine never resumed from a co_await (lost wake-up)");
    } else if (w.err != nullptr) {
      v.Fail(w.err);
    } else if (final_err != nullptr) {
      v.Fail(final_err);
    } else if (w.locals_alive != 0) {
      v.Fail("coroutine frame local not destroyed exactly once");
    } else if (all_normal && w.resumes != w.awaits) {
      v.Fail("a co_await did not resume exactly once");
    }
    v.nontrivial = w.raced > 0;
    v.hash = vf::Mix64(c.ProgHash(), ex.trace_hash);
    if (w.raced > 0) {
      v.tags.push_back("awaited-not-ready-at-co_await");
    }
    for (int k = 0; k < kKindN; ++k) {
      if ((w.kinds_run >> k) & 1u) {
        v.tags.push_back(vf::Intern(std::string("reached:") + kKindName[k]));
      }
    }
    if (c.H(4) % 3 != 0) {
      w.variants_run |= 2u;
    }
    if (c.H(4) / 3 % 2 == 1) {
      v.tags.push_back("variant:executor-1-is-a-Strand");
    }
    if (c.H(4) / 6 % 3 == 1) {
      v.tags.push_back("variant:awaited-contracts-carry-executor-1");
    }
    static const char* const kVar[] = {"variant:executor-stopped-while-running-on-it", "variant:futures-completed-by-coroutines",
                                       "variant:Await(task)-lvalue", "variant:co_return-throwing-copy"};
    for (int k = 0; k < 4; ++k) {
      if ((w.variants_run >> k) & 1u) {
        v.tags.push_back(kVar[k]);
      }
    }
    char b[96];
    std::snprintf(b, sizeof b, "awaits=%d resumes=%d switches=%u", w.awaits, w.resumes, ex.switches);
    v.detail = b;
  }
};

}  // namespace

int main(int argc, char** argv) {
  Coro fam;
  vf::Driver d{{&fam}};
  return d.Main(argc, argv);
}
