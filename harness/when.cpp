// C09 WhenAll / Join and C10 WhenAny: history-validity oracle over generated inputs, forms, policies and schedules.
#define VF_LEDGER_IMPL
#include "common/driver.hpp"
#include "common/fibers.hpp"
#include "common/host.hpp"
#include "common/ledger.hpp"
#include "common/tracked.hpp"

#include <yaclib/async/contract.hpp>
#include <yaclib/async/join.hpp>
#include <yaclib/async/shared_contract.hpp>
#include <yaclib/async/when_all.hpp>
#include <yaclib/async/when_any.hpp>

#include <algorithm>
#include <cstdio>
#include <string>
#include <tuple>
#include <utility>
#include <vector>

namespace {

using vf::Case;
using vf::Explorer;
using vf::Pay;
using vf::Verdict;
using yaclib::FailPolicy;

struct TErr {
  int code = -1;
  TErr(yaclib::StopTag) noexcept {
  }
  explicit TErr(int c) noexcept : code{c} {
  }
  static const char* What() noexcept {
    return "TErr";
  }
};
struct Boom {
  int id;
};

enum Form {
  kDynUnique,     // iterator form over Future<Pay>
  kVarUnique,     // variadic Future<Pay>...
  kVarTuple,      // variadic mixed value types -> tuple (WhenAll only)
  kDynVoid,       // iterator form over Future<void> -> Join
  kVarVoid,       // variadic Future<void>...
  kDynShared,     // iterator form over SharedFuture<Pay>
  kVarShared,     // variadic SharedFuture<Pay>...
  kVarMixed,      // variadic alternating Future<Pay> / SharedFuture<Pay>
  kJoinDynUnique, // Join(begin, n) over Future<Pay>
  kFormN
};
const char* const kFormName[] = {"iterator/unique", "variadic/unique", "variadic/tuple(mixed types)", "iterator/void",
                                 "variadic/void",   "iterator/shared", "variadic/shared",             "variadic/unique+shared",
                                 "Join(iterator)/unique"};
// outcome encoding equals ResultState: 0 value, 1 exception, 2 error
struct Iv {
  long b = 0, e = 0;
};

struct H {
  int n = 0;
  bool any = false;   // WhenAny (else WhenAll / Join)
  int policy = 0;     // FailPolicy as int: None 0, FirstFail 1, LastFail 2
  bool join = false;  // output carries no values
  std::vector<int> outcome;
  std::vector<Iv> set;
  Iv w;
  long a = 0, clock = 0;
  long out_time = 0;
  int out_count = 0, out_state = -1, out_from = -1;
  std::vector<int> vals;
  const char* err = nullptr;
  bool invalid_output = false;
  std::vector<int> sub_expected, sub_fired;  // per input: other consumers registered on a shared input
  int second_count = 0;                      // completions of a second combinator over the same shared inputs
  bool second_used = false;
  void Err(const char* e) {
    if (err == nullptr) {
      err = e;
    }
  }
};

int FailureSource(H& h, yaclib::ResultState st, const TErr* e, const std::exception_ptr* x) {
  (void)h;
  if (st == yaclib::ResultState::Error) {
    return e->code;
  }
  try {
    std::rethrow_exception(*x);
  } catch (const Boom& b) {
    return b.id;
  } catch (...) {
    return -2;
  }
}

struct Sink {
  H* h;
  template <typename V>
  void Fail(const yaclib::Result<V, TErr>& r) const {
    h->out_state = static_cast<int>(r.State());
    if (r.State() == yaclib::ResultState::Error) {
      h->out_from = FailureSource(*h, r.State(), &r.Error(), nullptr);
    } else if (r.State() == yaclib::ResultState::Exception) {
      h->out_from = FailureSource(*h, r.State(), nullptr, &r.Exception());
    }
  }
  void Begin() const {
    ++h->out_count;
    h->out_time = ++h->clock;
  }
  void operator()(yaclib::Result<std::vector<Pay>, TErr>&& r) const {
    Begin();
    if (r) {
      h->out_state = 0;
      auto v = std::move(r).Value();
      if (static_cast<int>(v.size()) != h->n) {
        h->Err("WhenAll output has the wrong number of elements");
        return;
      }
      for (int i = 0; i < h->n; ++i) {
        h->vals[static_cast<std::size_t>(i)] = v[static_cast<std::size_t>(i)].Read();
      }
    } else {
      Fail(r);
    }
  }
  void operator()(yaclib::Result<std::vector<yaclib::Result<Pay, TErr>>, TErr>&& r) const {
    Begin();
    h->out_state = static_cast<int>(r.State());
    if (r) {
      auto v = std::move(r).Value();
      if (static_cast<int>(v.size()) != h->n) {
        h->Err("WhenAll<None> output has the wrong number of elements");
        return;
      }
      for (int i = 0; i < h->n; ++i) {
        auto& ri = v[static_cast<std::size_t>(i)];
        int code = static_cast<int>(ri.State()) * 1000;
        if (ri) {
          code += std::as_const(ri).Value().Read() - 100;
        } else if (ri.State() == yaclib::ResultState::Error) {
          code += std::as_const(ri).Error().code;
        } else if (ri.State() == yaclib::ResultState::Exception) {
          code += FailureSource(*h, ri.State(), nullptr, &std::as_const(ri).Exception());
        }
        h->vals[static_cast<std::size_t>(i)] = code;
      }
    }
  }
  void operator()(yaclib::Result<std::vector<yaclib::Result<void, TErr>>, TErr>&& r) const {
    Begin();
    h->out_state = static_cast<int>(r.State());
    if (r) {
      const auto& v = std::as_const(r).Value();
      if (static_cast<int>(v.size()) != h->n) {
        h->Err("WhenAll<None> over void futures: wrong number of elements");
        return;
      }
      for (int i = 0; i < h->n; ++i) {
        const auto& ri = v[static_cast<std::size_t>(i)];
        int code = static_cast<int>(ri.State()) * 1000;
        if (ri) {
          code += i;  // a void value carries no payload
        } else if (ri.State() == yaclib::ResultState::Error) {
          code += ri.Error().code;
        } else if (ri.State() == yaclib::ResultState::Exception) {
          code += FailureSource(*h, ri.State(), nullptr, &ri.Exception());
        }
        h->vals[static_cast<std::size_t>(i)] = code;
      }
    }
  }
  template <typename T>
  static int ElemCode(H& hh, const T& x) {
    if constexpr (std::is_same_v<T, Pay>) {
      return x.Read();
    } else if constexpr (std::is_same_v<T, int>) {
      return x;
    } else {  // Result<Pay|int, TErr>
      int code = static_cast<int>(x.State()) * 1000;
      if (x) {
        code += ElemCode(hh, x.Value()) - 100;
      } else if (x.State() == yaclib::ResultState::Error) {
        code += x.Error().code;
      } else if (x.State() == yaclib::ResultState::Exception) {
        code += FailureSource(hh, x.State(), nullptr, &x.Exception());
      }
      return code;
    }
  }
  template <typename... T>
  void operator()(yaclib::Result<std::tuple<T...>, TErr>&& r) const {
    Begin();
    h->out_state = static_cast<int>(r.State());
    if (r) {
      const auto& t = std::as_const(r).Value();
      std::size_t i = 0;
      std::apply([&](const auto&... x) { ((h->vals[i++] = ElemCode(*h, x)), ...); }, t);
    } else {
      Fail(r);
    }
  }
  void operator()(yaclib::Result<void, TErr>&& r) const {
    Begin();
    if (r) {
      h->out_state = 0;
    } else {
      Fail(r);
    }
  }
  void operator()(yaclib::Result<Pay, TErr>&& r) const {  // WhenAny
    Begin();
    if (r) {
      h->out_state = 0;
      h->out_from = std::as_const(r).Value().Read() - 100;
    } else {
      Fail(r);
    }
  }
};

template <typename Out>
void Attach(H& h, Out&& o) {
  h.w.e = ++h.clock;
  if (!o.Valid()) {
    h.invalid_output = true;
  } else {
    std::move(o).DetachInline(Sink{&h});
  }
  h.a = ++h.clock;
}

template <typename A, typename B, std::size_t I>
auto&& Alt(std::vector<A>& a, std::vector<B>& b) {
  if constexpr (I % 2 == 0) {
    return std::move(a[I]);
  } else {
    return std::move(b[I]);
  }
}

template <bool Any, FailPolicy F, typename A, typename B, std::size_t... I>
auto CallVariadicAlt(std::vector<A>& a, std::vector<B>& b, std::index_sequence<I...>) {
  if constexpr (Any) {
    return yaclib::WhenAny<F>(Alt<A, B, I>(a, b)...);
  } else {
    return yaclib::WhenAll<F>(Alt<A, B, I>(a, b)...);
  }
}

template <bool Any, FailPolicy F, typename A, std::size_t... I>
auto CallVariadic(std::vector<A>& a, std::index_sequence<I...>) {
  if constexpr (Any) {
    return yaclib::WhenAny<F>(std::move(a[I])...);
  } else {
    return yaclib::WhenAll<F>(std::move(a[I])...);
  }
}

// dispatch on the run-time n for variadic forms
template <bool Any, FailPolicy F, typename A>
void VariadicN(H& h, std::vector<A>& a) {
  switch (h.n) {
    case 1:
      Attach(h, CallVariadic<Any, F>(a, std::make_index_sequence<1>{}));
      break;
    case 2:
      Attach(h, CallVariadic<Any, F>(a, std::make_index_sequence<2>{}));
      break;
    case 3:
      Attach(h, CallVariadic<Any, F>(a, std::make_index_sequence<3>{}));
      break;
    default:
      Attach(h, CallVariadic<Any, F>(a, std::make_index_sequence<4>{}));
  }
}
template <bool Any, FailPolicy F, typename A, typename B>
void VariadicAltN(H& h, std::vector<A>& a, std::vector<B>& b) {
  switch (h.n) {
    case 2:
      Attach(h, CallVariadicAlt<Any, F>(a, b, std::make_index_sequence<2>{}));
      break;
    case 3:
      Attach(h, CallVariadicAlt<Any, F>(a, b, std::make_index_sequence<3>{}));
      break;
    default:
      Attach(h, CallVariadicAlt<Any, F>(a, b, std::make_index_sequence<4>{}));
  }
}

using FP = yaclib::Future<Pay, TErr>;
using FI = yaclib::Future<int, TErr>;
using FV = yaclib::Future<void, TErr>;
using SP = yaclib::SharedFuture<Pay, TErr>;

struct Inputs {
  std::vector<FP> fp;
  std::vector<FI> fi;
  std::vector<FV> fv;
  std::vector<SP> sp;
  std::vector<SP> kept;  // extra copies of shared inputs kept by the harness (read after the combinator finished)
};

template <bool Any, FailPolicy F>
void CallCombinator(H& h, int form, Inputs& in) {
  const auto n = static_cast<std::size_t>(h.n);
  h.w.b = ++h.clock;
  switch (form) {
    case kDynUnique:
      if constexpr (Any) {
        Attach(h, yaclib::WhenAny<F>(in.fp.begin(), n));
      } else {
        Attach(h, yaclib::WhenAll<F>(in.fp.begin(), n));
      }
      break;
    case kVarUnique:
      VariadicN<Any, F>(h, in.fp);
      break;
    case kVarTuple:
      if constexpr (!Any) {
        VariadicAltN<false, F>(h, in.fp, in.fi);
      }
      break;
    case kDynVoid:
      if constexpr (!Any) {
        Attach(h, yaclib::WhenAll<F>(in.fv.begin(), in.fv.end()));
      }
      break;
    case kVarVoid:
      if constexpr (!Any) {
        VariadicN<false, F>(h, in.fv);
      }
      break;
    case kDynShared:
      if constexpr (Any) {
        Attach(h, yaclib::WhenAny<F>(in.sp.begin(), n));
      } else {
        Attach(h, yaclib::WhenAll<F>(in.sp.begin(), n));
      }
      break;
    case kVarShared:
      VariadicN<Any, F>(h, in.sp);
      break;
    case kVarMixed:
      VariadicAltN<Any, F>(h, in.fp, in.sp);
      break;
    default:
      if constexpr (!Any && F != FailPolicy::LastFail) {
        Attach(h, yaclib::Join<F>(in.fp.begin(), n));
      }
  }
}

// which kind of input slot i is for a form: 0 Future<Pay>, 1 Future<int>, 2 Future<void>, 3 SharedFuture<Pay>
int SlotKind(int form, int i) {
  switch (form) {
    case kDynUnique:
    case kVarUnique:
    case kJoinDynUnique:
      return 0;
    case kVarTuple:
      return i % 2 == 0 ? 0 : 1;
    case kDynVoid:
    case kVarVoid:
      return 2;
    case kDynShared:
    case kVarShared:
      return 3;
    default:
      return i % 2 == 0 ? 0 : 3;
  }
}

const char* CheckHistory(const H& h) {
  const int n = h.n;
  if (n == 0) {
    return h.invalid_output ? nullptr : "empty input set must yield an invalid future";
  }
  if (h.invalid_output) {
    return "combinator returned an invalid future for a non-empty input set";
  }
  if (h.out_count != 1) {
    return h.out_count == 0 ? "output never completed" : "output completed more than once";
  }
  std::vector<Iv> C(static_cast<std::size_t>(n));
  for (int i = 0; i < n; ++i) {
    const auto& s = h.set[static_cast<std::size_t>(i)];
    C[static_cast<std::size_t>(i)] = {std::max(s.b, h.w.b), std::max(s.e, h.w.e)};
  }
  auto prec = [&](int x, int y) { return C[static_cast<std::size_t>(x)].e < C[static_cast<std::size_t>(y)].b; };
  long last_begin = 0, all_end = h.a;
  bool any_fail = false, any_val = false;
  for (int i = 0; i < n; ++i) {
    last_begin = std::max(last_begin, h.set[static_cast<std::size_t>(i)].b);
    all_end = std::max(all_end, h.set[static_cast<std::size_t>(i)].e);
    any_fail |= h.outcome[static_cast<std::size_t>(i)] != 0;
    any_val |= h.outcome[static_cast<std::size_t>(i)] == 0;
  }
  const int f = h.out_from;
  if (!h.any) {
    if (h.policy == 0 || !any_fail) {
      if (h.out_state != 0) {
        return "WhenAll/Join: expected a value output";
      }
      if (h.out_time < last_begin) {
        return "WhenAll/Join: output ready before the last input began to complete";
      }
      if (h.out_time > all_end) {
        return "WhenAll/Join: output delivered late (not by the last completing input / attach)";
      }
      if (!h.join) {
        for (int i = 0; i < n; ++i) {
          const int o = h.outcome[static_cast<std::size_t>(i)];
          const int want = h.policy == 0 ? (o == 0 ? i : o * 1000 + i) : 100 + i;
          if (h.vals[static_cast<std::size_t>(i)] != want) {
            return "WhenAll: element does not carry the input of the same index";
          }
        }
      }
      return nullptr;
    }
    if (h.out_state == 0) {
      return "WhenAll/Join FirstFail: expected a failure output";
    }
    if (f < 0 || f >= n || h.outcome[static_cast<std::size_t>(f)] == 0 || h.outcome[static_cast<std::size_t>(f)] != h.out_state) {
      return "WhenAll/Join FirstFail: output failure does not come from a failed input";
    }
    for (int g = 0; g < n; ++g) {
      if (g != f && h.outcome[static_cast<std::size_t>(g)] != 0 && prec(g, f)) {
        return "WhenAll/Join FirstFail: not the first failure";
      }
    }
    if (h.out_time > std::max(h.set[static_cast<std::size_t>(f)].e, h.a)) {
      return "WhenAll/Join FirstFail: failure delivered late";
    }
    return nullptr;
  }
  if (f < 0 || f >= n) {
    return "WhenAny: output does not come from any input";
  }
  const int of = h.outcome[static_cast<std::size_t>(f)];
  if ((of == 0) != (h.out_state == 0) || (of != 0 && of != h.out_state)) {
    return "WhenAny: output state differs from the winning input";
  }
  if (h.policy == 0) {
    for (int g = 0; g < n; ++g) {
      if (g != f && prec(g, f)) {
        return "WhenAny<None>: an earlier completion was ignored";
      }
    }
  } else if (any_val) {
    if (of != 0) {
      return "WhenAny: failure delivered although an input produced a value";
    }
    for (int g = 0; g < n; ++g) {
      if (g != f && h.outcome[static_cast<std::size_t>(g)] == 0 && prec(g, f)) {
        return "WhenAny: not the first value";
      }
    }
  } else if (h.policy == 2) {
    for (int g = 0; g < n; ++g) {
      if (g != f && prec(f, g)) {
        return "WhenAny<LastFail>: not the failure of the input that completed last";
      }
    }
  } else {
    for (int g = 0; g < n; ++g) {
      if (g != f && prec(g, f)) {
        return "WhenAny<FirstFail>: not the first failure";
      }
    }
  }
  if (h.policy == 1 && !any_val) {
    if (h.out_time > all_end) {
      return "WhenAny<FirstFail>: all failed but the output came late";
    }
  } else if (h.out_time > std::max(h.set[static_cast<std::size_t>(f)].e, h.a)) {
    return "WhenAny: output delivered late";
  }
  return nullptr;
}

struct Decoded {
  bool any;
  int form, policy, n, delay, keep_mask;
  std::vector<int> outcome;
  bool supported;
};

class WhenFamily final : public vf::Family {
 public:
  WhenFamily(bool any) : _any{any} {
  }
  const char* Name() const final {
    return _any ? "whenany" : "whenall";
  }
  const char* Property() const final {
    return _any ? "C10" : "C09";
  }
  const char* Rule() const final {
    return "case = form (iterator / variadic x unique / shared / mixed / void / tuple of mixed types / Join) x "
           "FailPolicy x n in 0..4 x outcome per input (value / error / exception, distinct payload per input) x "
           "consumer delay x kept SharedFuture copies x other consumers already registered on shared inputs (subscriber, second combinator over the same inputs) x schedule tape; each input is fulfilled by its own fiber while "
           "the consumer builds the combinator; oracle = validity predicate over the logical-time history (output "
           "exactly once, right state / source / element order, not before the last input began, delivered by the "
           "deciding Set or the attach call, first/last failure only among non-overlapping consume intervals), "
           "Tracked + heap balance (every input released once), kept shared copies still readable; non-trivial = "
           "an input's Set overlapped the combinator call or >= 2 inputs failed; distinct = (program, fiber trace)";
  }
  Decoded Decode(const Case& c) const {
    Decoded d{};
    d.any = _any;
    d.form = c.H(0) % kFormN;
    d.policy = c.H(1) % 3;
    d.n = c.H(2) % 5;
    d.delay = c.H(3) % 7;
    d.keep_mask = c.H(4);
    for (int i = 0; i < d.n; ++i) {
      const int o = c.H(static_cast<std::size_t>(5 + i)) % 5;
      d.outcome.push_back(o < 3 ? 0 : o - 2);
    }
    d.supported = true;
    if (_any) {
      if (d.form == kVarTuple || d.form == kDynVoid || d.form == kVarVoid || d.form == kJoinDynUnique) {
        d.form = d.form == kVarTuple ? kVarUnique : d.form == kDynVoid ? kDynUnique : d.form == kVarVoid ? kVarShared : kDynShared;
      }
    } else if (d.policy == 2) {
      d.policy = 1;  // LastFail is not supported by WhenAll / Join
    }
    const bool variadic = d.form == kVarUnique || d.form == kVarTuple || d.form == kVarVoid || d.form == kVarShared ||
                          d.form == kVarMixed;
    if (variadic && d.n == 0) {
      d.n = 1;
      d.outcome.push_back(0);
    }
    if ((d.form == kVarTuple || d.form == kVarMixed) && d.n == 1) {
      d.n = 2;
      d.outcome.push_back(c.H(9) % 3);
    }
    return d;
  }
  rc::Gen<Case> Gen() const final {
    return rc::gen::exec([]() {
      Case c;
      c.hdr = {vf::Pick(0, kFormN), vf::Pick(0, 3), vf::Pick(0, 5), vf::Pick(0, 7), vf::Pick(0, 512),
               vf::Pick(0, 5),      vf::Pick(0, 5), vf::Pick(0, 5), vf::Pick(0, 5), vf::Pick(0, 3)};
      c.tape = *vf::GenTape(260);
      return c;
    });
  }
  std::vector<Case> DfsPrograms(int tier) const final {
    std::vector<Case> out;
    const int forms[] = {kDynUnique, kVarUnique, kDynShared, kVarMixed, kVarTuple, kDynVoid};
    for (int form : forms) {
      for (int policy = 0; policy < 3; ++policy) {
        for (int pat = 0; pat < (tier == 0 ? 2 : 4); ++pat) {
          Case c;
          // two inputs; outcome patterns: vv, ff, vf, fv (0 -> value, 4 -> error)
          const int o0 = pat == 1 || pat == 3 ? 4 : 0, o1 = pat == 1 || pat == 2 ? 4 : 0;
          c.hdr = {form, policy, 2, 1, 1, o0, o1, 0, 0, 0};
          out.push_back(c);
        }
      }
    }
    return out;
  }
  std::string Describe(const Case& c) const final {
    const Decoded d = Decode(c);
    static const char* const kPol[] = {"None", "FirstFail", "LastFail"};
    std::string s = std::string(_any ? "WhenAny<" : "WhenAll/Join<") + kPol[d.policy] + "> form=" + kFormName[d.form] +
                    " n=" + std::to_string(d.n) + " outcomes=";
    for (int o : d.outcome) {
      s += o == 0 ? 'v' : o == 1 ? 'x' : 'e';
    }
    return s + " consumer_delay=" + std::to_string(d.delay) + " keep/subscribe/second_mask=" + std::to_string(d.keep_mask % 512) +
           " tape_len=" + std::to_string(c.tape.size());
  }
  Verdict Run(const Case& c, Explorer& ex) final {
    Verdict v;
    vf::TheHost().Run([&] { RunOnHost(c, ex, v); });
    return v;
  }

 private:
  template <bool Any>
  static void Dispatch(H& h, int form, Inputs& in) {
    switch (h.policy) {
      case 0:
        CallCombinator<Any, FailPolicy::None>(h, form, in);
        break;
      case 1:
        CallCombinator<Any, FailPolicy::FirstFail>(h, form, in);
        break;
      default:
        if constexpr (Any) {
          CallCombinator<true, FailPolicy::LastFail>(h, form, in);
        }
    }
  }

  void RunOnHost(const Case& c, Explorer& ex, Verdict& v) {
    if (!_warm) {
      _warm = true;
      Explorer w;
      vf::RunFibers(w, [] {
        std::vector<yaclib_std::thread> ts;
        ts.reserve(8);
        for (int i = 0; i < 8; ++i) {
          ts.emplace_back([] { vf::Point(); });
        }
        for (auto& t : ts) {
          t.join();
        }
      });
    }
    const Decoded d = Decode(c);
    H h;
    h.n = d.n;
    h.any = d.any;
    h.policy = d.policy;
    h.join = ((d.form == kDynVoid || d.form == kVarVoid) && d.policy != 0) || d.form == kJoinDynUnique;
    h.outcome = d.outcome;
    h.set.resize(static_cast<std::size_t>(d.n));
    h.vals.assign(static_cast<std::size_t>(d.n), -1);
    h.sub_expected.assign(static_cast<std::size_t>(d.n), 0);
    h.sub_fired.assign(static_cast<std::size_t>(d.n), 0);
    vf::TS().Reset();
    long live_delta = 0;
    int overlapped = 0;
    const char* kept_err = nullptr;
    const bool done = vf::RunFibers(ex, [&] {
      const long live0 = vf::L().Live();
      {
        Inputs in;
        std::vector<yaclib::Promise<Pay, TErr>> pp(static_cast<std::size_t>(d.n));
        std::vector<yaclib::Promise<int, TErr>> pi(static_cast<std::size_t>(d.n));
        std::vector<yaclib::Promise<void, TErr>> pv(static_cast<std::size_t>(d.n));
        std::vector<yaclib::SharedPromise<Pay, TErr>> ps(static_cast<std::size_t>(d.n));
        in.fp.resize(static_cast<std::size_t>(d.n));
        in.fi.resize(static_cast<std::size_t>(d.n));
        in.fv.resize(static_cast<std::size_t>(d.n));
        in.sp.resize(static_cast<std::size_t>(d.n));
        for (int i = 0; i < d.n; ++i) {
          const auto u = static_cast<std::size_t>(i);
          switch (SlotKind(d.form, i)) {
            case 0: {
              auto [f, p] = yaclib::MakeContract<Pay, TErr>();
              in.fp[u] = std::move(f);
              pp[u] = std::move(p);
              break;
            }
            case 1: {
              auto [f, p] = yaclib::MakeContract<int, TErr>();
              in.fi[u] = std::move(f);
              pi[u] = std::move(p);
              break;
            }
            case 2: {
              auto [f, p] = yaclib::MakeContract<void, TErr>();
              in.fv[u] = std::move(f);
              pv[u] = std::move(p);
              break;
            }
            default: {
              auto [f, p] = yaclib::MakeSharedContract<Pay, TErr>();
              if (((d.keep_mask >> i) & 1) != 0) {
                in.kept.push_back(f);
              }
              if (((d.keep_mask >> (i + 4)) & 1) != 0) {
                // another consumer is already registered on this (pending) shared input
                ++h.sub_expected[u];
                f.SubscribeInline([&h, i, u](const yaclib::Result<Pay, TErr>& r) {
                  ++h.sub_fired[u];
                  if (h.set[u].b == 0) {
                    h.Err("a subscriber of a shared input ran before that input began to complete");
                  }
                  const int o = h.outcome[u];
                  if (static_cast<int>(r.State()) != o) {
                    h.Err("a subscriber of a shared input saw another input's state");
                  } else if (o == 0 && r.Value().Read() != 100 + i) {
                    h.Err("a subscriber of a shared input saw another input's value");
                  }
                });
              }
              in.sp[u] = std::move(f);
              ps[u] = std::move(p);
            }
          }
        }
        // variadic/void and iterator/void use only fv; trim vectors the iterator forms walk over
        std::vector<yaclib_std::thread> ts;
        ts.reserve(static_cast<std::size_t>(d.n));
        for (int i = 0; i < d.n; ++i) {
          const auto u = static_cast<std::size_t>(i);
          ts.emplace_back([&, i, u, kind = SlotKind(d.form, i), p0 = std::move(pp[u]), p1 = std::move(pi[u]),
                           p2 = std::move(pv[u]), p3 = std::move(ps[u])]() mutable {
            vf::Point();
            h.set[u].b = ++h.clock;
            const int o = h.outcome[u];
            auto fulfil = [&](auto& p, auto&& value) {
              if (o == 0) {
                std::move(p).Set(std::forward<decltype(value)>(value));
              } else if (o == 2) {
                std::move(p).Set(TErr{i});
              } else {
                std::move(p).Set(std::make_exception_ptr(Boom{i}));
              }
            };
            switch (kind) {
              case 0:
                fulfil(p0, Pay{100 + i});
                break;
              case 1:
                fulfil(p1, 100 + i);
                break;
              case 2:
                if (o == 0) {
                  std::move(p2).Set();
                } else if (o == 2) {
                  std::move(p2).Set(TErr{i});
                } else {
                  std::move(p2).Set(std::make_exception_ptr(Boom{i}));
                }
                break;
              default:
                fulfil(p3, Pay{100 + i});
            }
            h.set[u].e = ++h.clock;
          });
        }
        for (int k = 0; k < d.delay; ++k) {
          yaclib_std::this_thread::yield();
          vf::Point();
        }
        if (((d.keep_mask >> 8) & 1) != 0) {
          std::vector<SP> copies;
          for (int i = 0; i < d.n; ++i) {
            if (SlotKind(d.form, i) == 3) {
              copies.push_back(in.sp[static_cast<std::size_t>(i)]);
            }
          }
          if (!copies.empty()) {
            h.second_used = true;
            if (d.any) {
              yaclib::WhenAny(copies.begin(), copies.size()).DetachInline([&h](yaclib::Result<Pay, TErr>&&) {
                ++h.second_count;
              });
            } else if (d.policy == 0) {
              yaclib::WhenAll<FailPolicy::None>(copies.begin(), copies.size())
                .DetachInline([&h](yaclib::Result<std::vector<yaclib::Result<Pay, TErr>>, TErr>&&) { ++h.second_count; });
            } else {
              yaclib::WhenAll(copies.begin(), copies.size())
                .DetachInline([&h](yaclib::Result<std::vector<Pay>, TErr>&&) { ++h.second_count; });
            }
          }
        }
        if (d.any) {
          Dispatch<true>(h, d.form, in);
        } else {
          Dispatch<false>(h, d.form, in);
        }
        for (auto& t : ts) {
          t.join();
        }
        for (int i = 0; i < d.n; ++i) {
          const auto& s = h.set[static_cast<std::size_t>(i)];
          if (s.b < h.w.e && h.w.b < s.e) {
            ++overlapped;
          }
        }
        // kept copies of shared inputs must still see their own alive value
        for (auto& k : in.kept) {
          if (!k.Ready()) {
            kept_err = "kept SharedFuture copy of an input is not ready after the producers finished";
          } else {
            const auto& r = k.Get();
            if (r && (r.Value().Read() < 100 || r.Value().Read() > 104)) {
              kept_err = "kept SharedFuture copy reads a wrong value";
            }
          }
        }
      }
      live_delta = vf::L().Live() - live0;
    });
    v.inconclusive = ex.over_budget;
    int fails = 0;
    for (int o : d.outcome) {
      fails += o != 0;
    }
    if (!done) {
      v.Fail("deadlock: a producer or the consumer never finished");
    } else if (h.err != nullptr) {
      v.Fail(h.err);
    } else if (const char* e = CheckHistory(h)) {
      v.Fail(e);
    } else if (kept_err != nullptr) {
      v.Fail(kept_err);
    } else if (h.sub_expected != h.sub_fired) {
      v.Fail("another consumer registered on a shared input did not fire exactly once");
    } else if (h.second_used && h.second_count != 1) {
      v.Fail("a second combinator over the same shared inputs did not complete exactly once");
    } else if (vf::TS().err != nullptr) {
      v.Fail(vf::TS().err);
    } else if (vf::TS().Live() != 0) {
      v.Fail("input payloads constructed != destroyed at quiescence (an input was not released exactly once)");
    } else if (live_delta != 0) {
      v.Fail("heap blocks of the combinator or its inputs remain at quiescence");
    }
    v.nontrivial = overlapped > 0 || fails >= 2;
    v.hash = vf::Mix64(c.ProgHash(), ex.trace_hash);
    v.tags.push_back(kFormName[d.form]);
    if (overlapped > 0) {
      v.tags.push_back("set-overlapped-combinator-call");
    }
    if (fails >= 2) {
      v.tags.push_back(">=2-failures");
    }
    char b[96];
    std::snprintf(b, sizeof b, "out_state=%d out_from=%d switches=%u", h.out_state, h.out_from, ex.switches);
    v.detail = b;
  }
  bool _any;
  bool _warm = false;
};

}  // namespace

int main(int argc, char** argv) {
  WhenFamily all{false};
  WhenFamily any{true};
  vf::Driver d{{&all, &any}};
  return d.Main(argc, argv);
}
