// C18: yaclib_std locks, condition variables, threads, sleep and thread-local pointers keep the std contracts
// under the FIBER back end, for every scheduler choice.
#include "common/driver.hpp"
#include "common/fibers.hpp"
#include "common/host.hpp"

#include <yaclib_std/chrono>
#include <yaclib_std/condition_variable>
#include <yaclib_std/mutex>
#include <yaclib_std/shared_mutex>
#include <yaclib_std/thread>
#include <yaclib_std/thread_local>

#include <chrono>
#include <cstdio>
#include <string>
#include <vector>

namespace {

using vf::Case;
using vf::Explorer;
using vf::Verdict;
using Clock = yaclib_std::chrono::steady_clock;

enum Kind {
  kMutex,
  kTimedMutex,
  kRecursive,
  kRecursiveTimed,
  kShared,
  kSharedTimed,
  kCondVar,
  kThreadTlsSleep,
  kSharedRendezvous,
  kKindN
};
const char* const kKindName[] = {"mutex",        "timed_mutex",        "recursive_mutex",
                                 "recursive_timed_mutex", "shared_mutex", "shared_timed_mutex",
                                 "condition_variable",   "thread+tls+sleep", "shared_mutex reader rendezvous"};

struct Model {
  int excl = 0, shared = 0;
  int busy = 0;   // fibers between "about to call a lock/unlock" and the bookkeeping after it
  int epoch = 0;  // bumped by every acquire and release
  const char* err = nullptr;
  int parked = 0;  // blocking acquires that found the lock incompatible at entry (non-trivial rule)
  int timeouts = 0;
  void Err(const char* e) {
    if (err == nullptr) {
      err = e;
    }
  }
};

struct Op {
  int how, hold, par;
};

template <typename M, bool Timed, bool SharedCap, bool Recursive>
void LockFiber(M& m, Model& md, const std::vector<Op>& ops) {
  for (auto op : ops) {
    vf::Point();
    const bool sh = SharedCap && (op.how & 4) != 0;
    int how = op.how % 4;  // 0 lock, 1 try_lock, 2 try_lock_for, 3 try_lock_until
    if (!Timed && how >= 2) {
      how = how == 2 ? 0 : 1;
    }
    const int e0 = md.epoch;
    const bool incompatible_at_entry = md.busy > 0 || (sh ? md.excl > 0 : (md.excl > 0 || md.shared > 0));
    const bool held_at_entry = sh ? md.excl > 0 : (md.excl > 0 || md.shared > 0);
    ++md.busy;
    bool ok = true;
    const auto t0 = Clock::now();
    const auto d = std::chrono::nanoseconds((op.par % 5) * 70);
    if (how == 0) {
      if (held_at_entry) {
        ++md.parked;
      }
      if constexpr (SharedCap) {
        if (sh) {
          m.lock_shared();
        } else {
          m.lock();
        }
      } else {
        m.lock();
      }
    } else if (how == 1) {
      if constexpr (SharedCap) {
        ok = sh ? m.try_lock_shared() : m.try_lock();
      } else {
        ok = m.try_lock();
      }
    } else {
      if constexpr (Timed) {
        if (held_at_entry) {
          ++md.parked;
        }
        if constexpr (SharedCap) {
          if (how == 2) {
            ok = sh ? m.try_lock_shared_for(d) : m.try_lock_for(d);
          } else {
            ok = sh ? m.try_lock_shared_until(t0 + d) : m.try_lock_until(t0 + d);
          }
        } else {
          ok = how == 2 ? m.try_lock_for(d) : m.try_lock_until(t0 + d);
        }
      }
    }
    --md.busy;
    if (ok) {
      if (sh) {
        if (md.excl > 0) {
          md.Err("shared lock acquired while an exclusive holder exists");
        }
        ++md.shared;
      } else {
        if (md.excl > 0 || md.shared > 0) {
          md.Err("exclusive lock acquired while another holder exists");
        }
        ++md.excl;
      }
      ++md.epoch;
      int depth = 1;
      if constexpr (Recursive) {
        if ((op.par & 8) != 0) {
          if (!m.try_lock()) {
            md.Err("recursive re-lock by the owner failed");
          } else {
            depth = 2;
          }
        }
      }
      for (int h = 0; h < op.hold % 4; ++h) {
        yaclib_std::this_thread::yield();
        vf::Point();
      }
      if (sh) {
        if (md.excl > 0) {
          md.Err("exclusive holder appeared while the lock was held shared");
        }
      } else if (md.excl != 1 || md.shared != 0) {
        md.Err("another holder appeared while the lock was held exclusively");
      }
      if (sh) {
        --md.shared;
      } else {
        --md.excl;
      }
      ++md.busy;  // release bookkeeping before the call
      for (int k = 0; k < depth; ++k) {
        if constexpr (SharedCap) {
          if (sh) {
            m.unlock_shared();
          } else {
            m.unlock();
          }
        } else {
          m.unlock();
        }
      }
      --md.busy;
      ++md.epoch;
    } else {
      const bool incompatible_at_exit = md.busy > 0 || (sh ? md.excl > 0 : (md.excl > 0 || md.shared > 0));
      if (how == 1 && !incompatible_at_entry && !incompatible_at_exit && md.epoch == e0) {
        md.Err("try_lock failed although the lock was free throughout");
      }
      if (how >= 2) {
        ++md.timeouts;
        if (Clock::now() - t0 < d) {
          md.Err("timed lock reported failure before its deadline");
        }
      }
    }
  }
}

template <typename M, bool Timed, bool SharedCap, bool Recursive>
void RunLocks(Model& md, const std::vector<std::vector<Op>>& prog) {
  M m;
  std::vector<yaclib_std::thread> ts;
  ts.reserve(prog.size());
  for (auto& ops : prog) {
    ts.emplace_back([&m, &md, &ops] { LockFiber<M, Timed, SharedCap, Recursive>(m, md, ops); });
  }
  for (auto& t : ts) {
    t.join();
  }
}

// Condition variable: waiter fibers consume tokens, poster fibers post tokens; posts >= waits, posters never wait,
// so under the std contract every untimed wait terminates.
void RunCondVar(Model& md, const Case& c, int k) {
  yaclib_std::mutex m;
  yaclib_std::condition_variable cv;
  int tokens = 0;
  std::vector<std::vector<Op>> waits(static_cast<std::size_t>(k));
  int total_waits = 0;
  for (std::size_t i = 0; i < c.Records(); ++i) {
    const int* r = c.Rec(i);
    waits[static_cast<std::size_t>(r[0]) % waits.size()].push_back({r[1], r[2], r[3]});
    ++total_waits;
  }
  const int posters = 1 + c.H(3) % 2;
  std::vector<yaclib_std::thread> ts;
  for (auto& ops : waits) {
    ts.emplace_back([&, &ops = ops] {
      for (auto op : ops) {
        vf::Point();
        std::unique_lock l{m};
        const auto t0 = Clock::now();
        const auto d = std::chrono::nanoseconds((op.par % 5) * 60);
        auto pred = [&] { return tokens > 0; };
        switch (op.how % 6) {
          case 5: {
            // absolute deadline shared by every fiber that draws the same par: equal wake times on purpose
            const auto deadline = Clock::time_point{} + std::chrono::nanoseconds(400 + (op.par % 3) * 150);
            const bool r = cv.wait_until(l, deadline, pred);
            if (r != pred()) {
              md.Err("wait_until(shared deadline, pred) result differs from the predicate");
            }
            if (!r) {
              ++md.timeouts;
              if (Clock::now() < deadline) {
                md.Err("wait_until(shared deadline) timed out before its deadline");
              }
            } else {
              --tokens;
            }
            break;
          }
          case 0:
            if (!pred()) {
              ++md.parked;
            }
            cv.wait(l, pred);
            if (!pred()) {
              md.Err("wait(lock, pred) returned with a false predicate");
            }
            --tokens;
            break;
          case 1:
            if (!pred()) {
              ++md.parked;
            }
            while (!pred()) {
              cv.wait(l);
            }
            --tokens;
            break;
          case 2: {
            const bool r = cv.wait_for(l, d, pred);
            if (r != pred()) {
              md.Err("wait_for(pred) result differs from the predicate");
            }
            if (!r) {
              ++md.timeouts;
              if (Clock::now() - t0 < d) {
                md.Err("wait_for(pred) timed out before its deadline");
              }
            } else {
              --tokens;
            }
            break;
          }
          case 3: {
            const bool r = cv.wait_until(l, t0 + d, pred);
            if (r != pred()) {
              md.Err("wait_until(pred) result differs from the predicate");
            }
            if (!r) {
              ++md.timeouts;
              if (Clock::now() < t0 + d) {
                md.Err("wait_until(pred) timed out before its deadline");
              }
            } else {
              --tokens;
            }
            break;
          }
          default: {
            const auto st = cv.wait_for(l, d);
            if (st == std::cv_status::timeout) {
              ++md.timeouts;
              if (Clock::now() - t0 < d) {
                md.Err("wait_for reported timeout before its deadline");
              }
            }
            if (pred()) {
              --tokens;
            }
          }
        }
        if (!l.owns_lock()) {
          md.Err("wait returned without owning the lock");
        }
      }
    });
  }
  for (int p = 0; p < posters; ++p) {
    ts.emplace_back([&, p] {
      for (int i = p; i < total_waits; i += posters) {
        vf::Point();
        {
          std::lock_guard g{m};
          ++tokens;
        }
        if ((c.H(4) >> (i % 16)) & 1) {
          cv.notify_all();
        } else {
          cv.notify_one();
        }
      }
    });
  }
  for (auto& t : ts) {
    t.join();
  }
}

static YACLIB_THREAD_LOCAL_PTR(int) tls_ptr;
static YACLIB_THREAD_LOCAL_PTR(long) tls_other;  // a second thread-local pointer of another type must be independent
static int tls_default_target;
static YACLIB_THREAD_LOCAL_PTR(int) tls_init = &tls_default_target;  // like `thread_local int* p = &x;`

void RunThreadTlsSleep(Model& md, const Case& c, int k) {
  std::vector<int> finished(static_cast<std::size_t>(k), 0);
  std::vector<int> slot(static_cast<std::size_t>(k), 0);
  std::vector<yaclib_std::thread> ts;
  for (int i = 0; i < k; ++i) {
    ts.emplace_back([&, i] {
      if (tls_ptr.Get() != nullptr) {
        md.Err("fresh fiber sees another fiber's thread-local pointer");
      }
      tls_ptr = &slot[static_cast<std::size_t>(i)];
      if (tls_other.Get() != nullptr) {
        md.Err("setting one thread-local pointer changed another thread-local pointer (of a different type)");
      }
      static long other_slot[8];
      tls_other = &other_slot[i % 8];
      if (tls_ptr.Get() != &slot[static_cast<std::size_t>(i)]) {
        md.Err("setting a second thread-local pointer overwrote the first one");
      }
      // a thread-local pointer with a non-null initialiser: every fiber starts from the initial value, and what a
      // fiber stores (nullptr included) is what that fiber reads back
      int* init_expect = &tls_default_target;
      if (tls_init.Get() != init_expect) {
        md.Err("fresh fiber does not see the initial value of an initialised thread-local pointer");
      }
      for (std::size_t r = 0; r < c.Records(); ++r) {
        const int* rec = c.Rec(r);
        if (rec[0] % k != i) {
          continue;
        }
        vf::Point();
        if (rec[1] % 3 == 0) {
          const auto t0 = Clock::now();
          const auto d = std::chrono::nanoseconds((rec[3] % 6) * 50);
          yaclib_std::this_thread::sleep_for(d);
          if (Clock::now() - t0 < d) {
            md.Err("sleep_for returned before the duration elapsed");
          }
          ++md.parked;
        } else if (rec[1] % 3 == 1) {
          yaclib_std::this_thread::yield();
        } else {
          const auto t0 = Clock::now();
          const auto d = std::chrono::nanoseconds((rec[3] % 6) * 50);
          yaclib_std::this_thread::sleep_until(t0 + d);
          if (Clock::now() < t0 + d) {
            md.Err("sleep_until returned before the time point");
          }
        }
        if (tls_ptr.Get() != &slot[static_cast<std::size_t>(i)] || tls_other.Get() != &other_slot[i % 8]) {
          md.Err("thread-local pointer changed under the fiber (not per fiber)");
        }
        if (tls_init.Get() != init_expect) {
          md.Err("initialised thread-local pointer does not hold what this fiber stored last");
        }
        if (rec[2] % 3 != 0) {
          init_expect = rec[2] % 3 == 1 ? nullptr : &slot[static_cast<std::size_t>(i)];
          tls_init = init_expect;
          if (tls_init.Get() != init_expect) {
            md.Err(init_expect == nullptr ? "a thread-local pointer reset to nullptr reads back non-null (the shared default)"
                                          : "a thread-local pointer does not read back what was stored");
          }
        }
      }
      finished[static_cast<std::size_t>(i)] = 1;
    });
  }
  for (int i = 0; i < k; ++i) {
    vf::Point();
    ts[static_cast<std::size_t>(i)].join();
    if (finished[static_cast<std::size_t>(i)] != 1) {
      md.Err("thread::join returned before the thread function finished");
    }
  }
  if (tls_ptr.Get() != nullptr) {
    md.Err("joining fiber sees a thread-local pointer set by another fiber");
  }
}

// Two (or three) readers block behind a writer; when the writer releases and no writer is pending, every reader
// must get in: they rendezvous inside the shared section (terminates under the std contract).
template <typename M>
void RunRendezvous(Model& md, const Case& c, int readers) {
  M m;
  yaclib_std::mutex gate;
  yaclib_std::condition_variable cv;
  int inside = 0;
  int arrived = 0;
  m.lock();
  ++md.excl;
  std::vector<yaclib_std::thread> ts;
  for (int i = 0; i < readers; ++i) {
    ts.emplace_back([&, i] {
      vf::Point();
      ++arrived;
      ++md.parked;
      if constexpr (std::is_same_v<M, yaclib_std::shared_timed_mutex>) {
        if (((c.H(3) >> i) & 1) != 0) {
          // a generous timed shared acquisition must also be woken
          if (!m.try_lock_shared_for(std::chrono::seconds(1000))) {
            md.Err("try_lock_shared_for(very long) failed");
            return;
          }
        } else {
          m.lock_shared();
        }
      } else {
        m.lock_shared();
      }
      if (md.excl > 0) {
        md.Err("shared lock acquired while the writer still holds the lock");
      }
      {
        std::unique_lock l{gate};
        ++inside;
        cv.notify_all();
        cv.wait(l, [&] { return inside == readers; });
      }
      m.unlock_shared();
    });
  }
  for (int i = 0; i < 2 + c.H(4) % 6; ++i) {
    yaclib_std::this_thread::yield();
    vf::Point();
  }
  --md.excl;
  m.unlock();
  for (auto& t : ts) {
    t.join();
  }
  (void)arrived;
}

class StdLocks final : public vf::Family {
 public:
  const char* Name() const final {
    return "stdlocks";
  }
  const char* Property() const final {
    return "C18";
  }
  const char* Rule() const final {
    return "case = one primitive (6 mutex kinds | condition_variable with token posters/waiters | thread join + "
           "thread-local pointer + sleep | shared-mutex reader rendezvous) x 2..4 fibers x per-fiber operation "
           "sequences (lock / try_lock / try_lock_for / try_lock_until, shared forms, recursive re-lock, hold yields; "
           "wait, wait(pred), wait_for/until with and without predicate, notify_one/all) x tick length x schedule "
           "tape; oracle = holder-compatibility model with busy windows, deadlines on the virtual clock, exact "
           "quiescent-deadlock detection; non-trivial = at least one blocking acquire / wait found the resource "
           "unavailable at entry (it had to park or time out); distinct = (program, effective fiber trace)";
  }
#ifndef VF_NO_RC
  rc::Gen<Case> Gen() const final {
    return rc::gen::exec([]() {
      Case c;
      c.recw = 4;
      const int kind = vf::Pick(0, kKindN);
      const int k = vf::Pick(2, 5);
      c.hdr = {kind, k, vf::Pick(1, 40), vf::Pick(0, 1 << 16), vf::Pick(0, 1 << 16)};
      const int n = vf::Pick(1, 11);
      for (int i = 0; i < n; ++i) {
        c.prog.push_back(vf::Pick(0, k));
        c.prog.push_back(vf::Pick(0, 16));
        c.prog.push_back(vf::Pick(0, 4));
        c.prog.push_back(vf::Pick(0, 64));
      }
      c.tape = *vf::GenTape(300);
      return c;
    });
  }
#endif
  std::vector<Case> DfsPrograms(int tier) const final {
    // smallest configurations: two fibers, one or two blocking operations each, every kind
    std::vector<Case> out;
    for (int kind = 0; kind < kKindN; ++kind) {
      for (int variant = 0; variant < (tier == 0 ? 3 : 8); ++variant) {
        Case c;
        c.recw = 4;
        c.hdr = {kind, 2, 10, variant * 37 + 5, variant * 11 + 3};
        const int hows[8][2] = {{0, 0}, {0, 2}, {4, 0}, {2, 4}, {1, 0}, {3, 0}, {0, 6}, {4, 4}};
        c.prog = {0, hows[variant][0], 1, 2 + variant, 1, hows[variant][1], 1, 1 + variant};
        out.push_back(c);
      }
    }
    return out;
  }
  std::string Describe(const Case& c) const final {
    const int kind = c.H(0) % kKindN;
    std::string s = std::string("primitive=") + kKindName[kind] + " fibers=" + std::to_string(Fibers(c)) +
                    " tick=" + std::to_string(1 + c.H(2) % 40) + " ops=[";
    for (std::size_t i = 0; i < c.Records(); ++i) {
      const int* r = c.Rec(i);
      char b[64];
      std::snprintf(b, sizeof b, "%sf%d:%d/%d/%d", i != 0 ? " " : "", r[0] % Fibers(c), r[1], r[2], r[3]);
      s += b;
    }
    return s + "] tape_len=" + std::to_string(c.tape.size());
  }
  static int Fibers(const Case& c) {
    return 2 + (c.H(1) + 2) % 3;  // 2..4
  }
  Verdict Run(const Case& c, Explorer& ex) final {
    Verdict v;
    vf::TheHost().Run([&] { RunOnHost(c, ex, v); });
    return v;
  }

 private:
  void RunOnHost(const Case& c, Explorer& ex, Verdict& v) {
    const int kind = c.H(0) % kKindN;
    const int k = Fibers(c);
    yaclib::fiber::SetFaultTickLength(static_cast<std::uint32_t>(1 + c.H(2) % 40));
    yaclib::SetFaultSleepTime(static_cast<std::uint32_t>(1 + c.H(3) % 50));  // timer jitter bound (>=1)
    Model md;
    std::vector<std::vector<Op>> prog(static_cast<std::size_t>(k));
    for (std::size_t i = 0; i < c.Records(); ++i) {
      const int* r = c.Rec(i);
      prog[static_cast<std::size_t>(r[0]) % prog.size()].push_back({r[1], r[2], r[3]});
    }
    const bool done = vf::RunFibers(ex, [&] {
      switch (kind) {
        case kMutex:
          RunLocks<yaclib_std::mutex, false, false, false>(md, prog);
          break;
        case kTimedMutex:
          RunLocks<yaclib_std::timed_mutex, true, false, false>(md, prog);
          break;
        case kRecursive:
          RunLocks<yaclib_std::recursive_mutex, false, false, true>(md, prog);
          break;
        case kRecursiveTimed:
          RunLocks<yaclib_std::recursive_timed_mutex, true, false, true>(md, prog);
          break;
        case kShared:
          RunLocks<yaclib_std::shared_mutex, false, true, false>(md, prog);
          break;
        case kSharedTimed:
          RunLocks<yaclib_std::shared_timed_mutex, true, true, false>(md, prog);
          break;
        case kCondVar:
          RunCondVar(md, c, k);
          break;
        case kThreadTlsSleep:
          RunThreadTlsSleep(md, c, k);
          break;
        default:
          if (c.H(3) % 2 == 0) {
            RunRendezvous<yaclib_std::shared_mutex>(md, c, 2 + c.H(4) % 2);
          } else {
            RunRendezvous<yaclib_std::shared_timed_mutex>(md, c, 2 + c.H(4) % 2);
          }
      }
    });
    v.inconclusive = ex.over_budget;
    if (!done) {
      v.Fail(std::string("deadlock: a fiber stayed parked although every holder released / every notify was sent [") +
             kKindName[kind] + "]");
    } else if (md.err != nullptr) {
      v.Fail(std::string(md.err) + " [" + kKindName[kind] + "]");
    }
    v.nontrivial = md.parked > 0 || md.timeouts > 0;
    v.hash = vf::Mix64(c.ProgHash(), ex.trace_hash);
    v.tags.push_back(kKindName[kind]);
    if (md.parked > 0) {
      v.tags.push_back("parked-acquire-or-wait");
    }
    if (md.timeouts > 0) {
      v.tags.push_back("timed-out");
    }
    char b[96];
    std::snprintf(b, sizeof b, "switches=%u queries=%llu", ex.switches, static_cast<unsigned long long>(ex.queries));
    v.detail = b;
  }
};

}  // namespace

int main(int argc, char** argv) {
  StdLocks fam;
  vf::Driver d{{&fam}};
  return d.Main(argc, argv);
}
