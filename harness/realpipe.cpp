// C05 / C03: continuation chains over the library's own executors (FairThreadPool, Strand, Manual) while another fiber
// stops the pool at a generated point: the chain always completes, a refused step sees StopError, value callbacks are
// skipped after a failure, every functor and payload is released exactly once - for every explorer schedule.
#define VF_LEDGER_IMPL
#include "common/driver.hpp"
#include "common/fibers.hpp"
#include "common/host.hpp"
#include "common/ledger.hpp"
#include "common/tracked.hpp"

#include <yaclib/async/contract.hpp>
#include <yaclib/async/run.hpp>
#include <yaclib/exe/manual.hpp>
#include <yaclib/exe/strand.hpp>
#include <yaclib/lazy/schedule.hpp>
#include <yaclib/runtime/fair_thread_pool.hpp>

#include <cstdio>
#include <string>
#include <vector>

namespace {

using vf::Case;
using vf::Explorer;
using vf::Pay;
using vf::Verdict;

struct TErr {
  int code;
  TErr(yaclib::StopTag) noexcept : code{-1} {
  }
  explicit TErr(int c) noexcept : code{c} {
  }
  static const char* What() noexcept {
    return "TErr";
  }
};
using R = yaclib::Result<Pay, TErr>;

enum Stack { kPool, kStrandPool, kStrand2Pool, kManual, kStackN };
const char* const kStackName[] = {"pool", "strand/pool", "strand/strand/pool", "manual(drained by a fiber)"};
enum StopKind { kNoStopUntilDone, kStop, kSoftStop, kHardStop, kStopN };
const char* const kStopName[] = {"stop after the chain finished", "Stop", "SoftStop", "HardStop"};
enum Src { kContract, kRun, kSchedule, kRunShared, kSrcN };
const char* const kSrcName[] = {"contract set by a producer fiber", "Run(e)", "Schedule(e)+ToFuture",
                                "RunShared(e): first step and a Subscribe(f) attached to the SharedFutureOn"};

struct StepRec {
  int mode, sig;  // mode: 0 ThenInline, 1 Then(e), 2 Then() inherited; sig: 0 value, 1 Result
};

struct PCtx {
  std::vector<int> calls;     // per step
  std::vector<int> saw;       // per step: -1 not run, 0 value, 2 error
  std::vector<int> saw_code;
  std::vector<long> at;
  long clock = 0;
  const char* err = nullptr;
  bool stop_issued = false;
  int subscribed_calls = 0;  // Subscribe(f) attached to a RunShared source
  std::vector<std::uint64_t> ran_on;  // per step: fiber that ran the callback
  std::uint64_t main_id = 0, producer_id = 0;
  void Err(const char* e) {
    if (err == nullptr) {
      err = e;
    }
  }
};

template <typename H>
auto AttachStep(H&& h, yaclib::IExecutor& e, PCtx& cx, int i, StepRec st) {
  vf::Guard g;
  PCtx* cp = &cx;
  auto on_value = [cp, i, g](Pay v) {
    g.Use();
    ++cp->calls[static_cast<std::size_t>(i)];
    cp->saw[static_cast<std::size_t>(i)] = 0;
    cp->at[static_cast<std::size_t>(i)] = ++cp->clock;
    cp->ran_on[static_cast<std::size_t>(i)] = yaclib_std::this_thread::get_id();
    return Pay{v.Read() + 1};
  };
  auto on_result = [cp, i, g](R&& r) {
    g.Use();
    ++cp->calls[static_cast<std::size_t>(i)];
    cp->saw[static_cast<std::size_t>(i)] = static_cast<int>(r.State());
    cp->at[static_cast<std::size_t>(i)] = ++cp->clock;
    cp->ran_on[static_cast<std::size_t>(i)] = yaclib_std::this_thread::get_id();
    if (r) {
      return R{Pay{std::as_const(r).Value().Read() + 1}};
    }
    if (r.State() == yaclib::ResultState::Error) {
      cp->saw_code[static_cast<std::size_t>(i)] = std::as_const(r).Error().code;
      return R{std::move(r).Error()};
    }
    return R{std::move(r).Exception()};
  };
  // the result type is always FutureOn<Pay, TErr> so that the chain can be folded at run time
  if (st.sig == 0) {
    if (st.mode == 0) {
      return std::move(h).ThenInline(on_value);
    }
    if (st.mode == 1) {
      return std::move(h).Then(e, on_value);
    }
    return std::move(h).Then(on_value);
  }
  if (st.mode == 0) {
    return std::move(h).ThenInline(on_result);
  }
  if (st.mode == 1) {
    return std::move(h).Then(e, on_result);
  }
  return std::move(h).Then(on_result);
}

// first step on a SharedFutureOn (RunShared): callbacks take the shared value / Result by const reference; Then(f) and
// Subscribe(f) without an executor inherit the one of RunShared
template <typename SH>
yaclib::FutureOn<Pay, TErr> AttachShared(const SH& sh, yaclib::IExecutor& e, PCtx& cx, int i, StepRec st) {
  vf::Guard g;
  PCtx* cp = &cx;
  auto on_value = [cp, i, g](const Pay& v) {
    g.Use();
    ++cp->calls[static_cast<std::size_t>(i)];
    cp->saw[static_cast<std::size_t>(i)] = 0;
    cp->at[static_cast<std::size_t>(i)] = ++cp->clock;
    cp->ran_on[static_cast<std::size_t>(i)] = yaclib_std::this_thread::get_id();
    return Pay{v.Read() + 1};
  };
  auto on_result = [cp, i, g](const R& r) {
    g.Use();
    ++cp->calls[static_cast<std::size_t>(i)];
    cp->saw[static_cast<std::size_t>(i)] = static_cast<int>(r.State());
    cp->at[static_cast<std::size_t>(i)] = ++cp->clock;
    cp->ran_on[static_cast<std::size_t>(i)] = yaclib_std::this_thread::get_id();
    if (r) {
      return R{Pay{r.Value().Read() + 1}};
    }
    if (r.State() == yaclib::ResultState::Error) {
      cp->saw_code[static_cast<std::size_t>(i)] = r.Error().code;
      return R{r.Error()};
    }
    return R{r.Exception()};
  };
  if (st.sig == 0) {
    if (st.mode == 0) {
      return sh.ThenInline(on_value);
    }
    if (st.mode == 1) {
      return sh.Then(e, on_value);
    }
    return sh.Then(on_value);
  }
  if (st.mode == 0) {
    return sh.ThenInline(on_result);
  }
  if (st.mode == 1) {
    return sh.Then(e, on_result);
  }
  return sh.Then(on_result);
}

struct Decoded {
  int stack, workers, stop, delay, src;
  std::vector<StepRec> steps;
};
Decoded Decode(const Case& c) {
  Decoded d{};
  d.stack = c.H(0) % kStackN;
  d.workers = 1 + c.H(1) % 3;
  d.stop = d.stack == kManual ? kNoStopUntilDone : c.H(2) % kStopN;
  d.delay = c.H(3) % 12;
  d.src = c.H(4) % kSrcN;
  for (std::size_t i = 0; i < c.Records() && i < 5; ++i) {
    d.steps.push_back({c.Rec(i)[0] % 3, c.Rec(i)[1] % 2});
  }
  return d;
}

class RealPipe final : public vf::Family {
 public:
  const char* Name() const final {
    return "realpipe";
  }
  const char* Property() const final {
    return "C05";
  }
  const char* Rule() const final {
    return "case = source (contract fulfilled by a producer fiber | Run(e) | Schedule(e).ToFuture) x <= 5 steps "
           "(ThenInline | Then(e) | Then() inherited; callback taking the value or the Result) over the library's own "
           "executors (FairThreadPool(1..3), Strand over it, Strand over Strand, Manual drained by a fiber) x a fiber "
           "that calls Stop / SoftStop / HardStop after a generated number of yields (or only after the chain finished) "
           "x schedule tape; oracle = the chain always completes (Get returns, no parked fiber), every Result callback "
           "runs exactly once, a value callback runs at most once and only with a value input, callbacks run in "
           "pipeline order, the only failure is StopError(-1) and once it appeared every later Result callback sees it "
           "and value callbacks are skipped, the final Result matches what the last step saw, no StopError unless a "
           "stop was issued before the chain finished, Tracked functor / payload and heap balance at quiescence; "
           "non-trivial = some step was refused (saw StopError) while an earlier step had run with a value, or a stop "
           "was issued while the chain was in flight; distinct = (program, fiber trace)";
  }
  rc::Gen<Case> Gen() const final {
    return rc::gen::exec([]() {
      Case c;
      c.recw = 2;
      c.hdr = {vf::Pick(0, kStackN), vf::Pick(0, 3), vf::Pick(0, kStopN), vf::Pick(0, 12), vf::Pick(0, kSrcN)};
      const int n = vf::Pick(1, 6);
      for (int i = 0; i < n; ++i) {
        c.prog.push_back(vf::Pick(0, 3));
        c.prog.push_back(vf::Pick(0, 2));
      }
      c.tape = *vf::GenTape(400);
      return c;
    });
  }
  std::string Describe(const Case& c) const final {
    const Decoded d = Decode(c);
    static const char* const kMode[] = {"ThenInline", "Then(e)", "Then()"};
    std::string s = std::string("executors=") + kStackName[d.stack] + " workers=" + std::to_string(d.workers) +
                    " stop=" + kStopName[d.stop] + " delay=" + std::to_string(d.delay) + " source=" + kSrcName[d.src] +
                    " steps=[";
    for (auto& st : d.steps) {
      s += std::string(kMode[st.mode]) + (st.sig == 0 ? "(value) " : "(Result) ");
    }
    return s + "] tape_len=" + std::to_string(c.tape.size());
  }
  Verdict Run(const Case& c, Explorer& ex) final {
    Verdict v;
    vf::TheHost().Run([&] { RunOnHost(c, ex, v); });
    return v;
  }

 private:
  void RunOnHost(const Case& c, Explorer& ex, Verdict& v) {
    if (!_warm) {
      _warm = true;
      Explorer w;
      vf::RunFibers(w, [] {
        std::vector<yaclib_std::thread> ts;
        ts.reserve(8);
        for (int i = 0; i < 8; ++i) {
          ts.emplace_back([] { vf::Point(); });
        }
        for (auto& t : ts) {
          t.join();
        }
      });
    }
    const Decoded d = Decode(c);
    const auto n = d.steps.size();
    PCtx cx;
    cx.calls.assign(n, 0);
    cx.saw.assign(n, -1);
    cx.saw_code.assign(n, 0);
    cx.at.assign(n, 0);
    cx.ran_on.assign(n, 0);
    vf::TS().Reset();
    long live_delta = 0;
    int final_state = -1, final_val = 0, final_code = 0;
    bool stop_before_done = false;
    const bool done = vf::RunFibers(ex, [&] {
      const long live0 = vf::L().Live();
      {
        yaclib::IntrusivePtr<yaclib::FairThreadPool> tp;
        yaclib::IExecutorPtr manual_ptr;
        yaclib::ManualExecutor* manual = nullptr;
        yaclib::IExecutorPtr e;
        if (d.stack == kManual) {
          manual_ptr = yaclib::MakeManual();
          manual = static_cast<yaclib::ManualExecutor*>(manual_ptr.Get());
          e = manual_ptr;
        } else {
          tp = yaclib::MakeFairThreadPool(static_cast<std::uint64_t>(d.workers));
          e = tp;
          if (d.stack >= kStrandPool) {
            e = yaclib::MakeStrand(e);
          }
          if (d.stack >= kStrand2Pool) {
            e = yaclib::MakeStrand(e);
          }
        }
        bool chain_done = false;
        cx.main_id = yaclib_std::this_thread::get_id();
        yaclib_std::thread producer;
        yaclib::FutureOn<Pay, TErr> h;
        if (d.src == kContract) {
          auto [f, p] = yaclib::MakeContractOn<Pay, TErr>(*e);
          h = std::move(f);
          producer = yaclib_std::thread([&cx, p = std::move(p)]() mutable {
            cx.producer_id = yaclib_std::this_thread::get_id();
            vf::Point();
            std::move(p).Set(Pay{1});
          });
        } else if (d.src == kRun) {
          h = yaclib::Run<TErr>(*e, [] { return Pay{1}; });
        } else if (d.src == kSchedule) {
          h = yaclib::Schedule<TErr>(*e, [] { return Pay{1}; }).ToFuture(*e);
        }
        std::size_t first = 0;
        auto shared_src = d.src == kRunShared ? yaclib::RunShared<TErr>(*e, [] { return Pay{1}; })
                                              : yaclib::SharedFutureOn<Pay, TErr>{};
        if (d.src == kRunShared) {
          vf::Point();
          h = AttachShared(shared_src, *e, cx, 0, d.steps[0]);
          first = 1;
          vf::Guard sg;
          shared_src.Subscribe([&cx, sg](const R& r) {  // inherits the executor of RunShared, fires exactly once
            sg.Use();
            ++cx.subscribed_calls;
            if (r.State() == yaclib::ResultState::Exception || (r.State() == yaclib::ResultState::Error && r.Error().code != -1)) {
              cx.Err("Subscribe(f) on the RunShared source saw a failure other than StopError");
            }
          });
        }
        for (std::size_t i = first; i < n; ++i) {
          vf::Point();
          h = AttachStep(std::move(h), *e, cx, static_cast<int>(i), d.steps[i]);
        }
        yaclib_std::thread drainer;
        if (manual != nullptr) {
          drainer = yaclib_std::thread([&] {
            while (!chain_done) {
              (void)manual->Drain();
              yaclib_std::this_thread::yield();
            }
            (void)manual->Drain();
          });
        }
        yaclib_std::thread stopper;
        if (tp != nullptr && d.stop != kNoStopUntilDone) {
          stopper = yaclib_std::thread([&] {
            for (int k = 0; k < d.delay; ++k) {
              yaclib_std::this_thread::yield();
              vf::Point();
            }
            if (!chain_done) {
              stop_before_done = true;
            }
            cx.stop_issued = true;
            if (d.stop == kStop) {
              tp->Stop();
            } else if (d.stop == kSoftStop) {
              tp->SoftStop();
            } else {
              tp->HardStop();
            }
          });
        }
        R r = std::move(h).Get();
        chain_done = true;
        final_state = static_cast<int>(r.State());
        if (r) {
          final_val = std::as_const(r).Value().Read();
        } else if (r.State() == yaclib::ResultState::Error) {
          final_code = std::as_const(r).Error().code;
        }
        if (d.src == kContract) {
          producer.join();
        }
        if (manual != nullptr) {
          drainer.join();
        }
        if (tp != nullptr) {
          if (d.stop != kNoStopUntilDone) {
            stopper.join();
          }
          tp->Stop();
          tp->Wait();
        }
      }
      live_delta = vf::L().Live() - live0;
    });
    v.inconclusive = ex.over_budget;
    bool mixed = false;
    if (!done) {
      v.Fail("deadlock: the chain never completed (Get parked forever) although every executor was stopped or drained");
    } else if (cx.err != nullptr) {
      v.Fail(cx.err);
    } else {
      // history validity
      int cur = d.src == kContract ? 0 : -2;  // -2: the head itself may have been refused
      int expect_val = 1;
      bool failed = false;
      long last_at = 0;
      // head of Run / Schedule: value unless refused; we cannot observe it directly, the first step tells
      for (std::size_t i = 0; i < n && v.ok; ++i) {
        const auto& st = d.steps[i];
        const int calls = cx.calls[i], saw = cx.saw[i];
        if (calls > 1) {
          v.Fail("a continuation ran more than once");
        } else if (st.sig == 1 && calls != 1) {
          v.Fail("a continuation taking Result did not run although the chain completed");
        } else if (calls == 1) {
          if (cx.at[i] <= last_at) {
            v.Fail("continuations ran out of pipeline order");
          }
          last_at = cx.at[i];
          if (st.mode != 0 && saw == 0 && (cx.ran_on[i] == cx.main_id || (cx.producer_id != 0 && cx.ran_on[i] == cx.producer_id))) {
            // a step attached with Then(e, f) / Then(f) that ran with a value was accepted by its executor: it runs on a
            // worker (or the draining fiber), never inline in the attaching or the fulfilling fiber
            v.Fail("a Then(e, f) / Then(f) step ran inline in the attaching / fulfilling fiber instead of on its executor");
          } else if (st.sig == 0 && failed) {
            v.Fail("a value callback ran after the chain had already failed (StopError must skip it)");
          } else if (st.sig == 1) {
            if (saw == 2 && cx.saw_code[i] != -1) {
              v.Fail("a refused step saw an error other than StopError");
            } else if (saw == 1) {
              v.Fail("a step saw an exception nobody threw");
            } else if (saw == 0 && failed) {
              v.Fail("a Result callback saw a value after the chain had already failed");
            }
            if (saw == 2) {
              mixed |= !failed && i > 0;
              failed = true;
            }
          }
          if (!failed) {
            ++expect_val;
          }
        } else if (st.sig == 0) {
          failed = true;  // a skipped value callback means its input was a failure (refusal of it or of the head)
        }
      }
      (void)cur;
      if (v.ok) {
        if (failed) {
          if (final_state != 2 || final_code != -1) {
            v.Fail("the chain failed with a refusal but the final Result is not StopError");
          }
        } else if (final_state != 0 || final_val != expect_val) {
          v.Fail("every step ran with a value but the final Result is not the expected value");
        }
      }
      if (v.ok && d.src == kRunShared && cx.subscribed_calls != 1) {
        v.Fail("Subscribe(f) on the RunShared source did not fire exactly once");
      }
      if (v.ok && failed && !cx.stop_issued) {
        v.Fail("a step saw StopError although no executor was ever stopped");
      }
      if (v.ok && failed && d.stop == kNoStopUntilDone) {
        v.Fail("a step saw StopError although the pool was only stopped after the chain finished");
      }
    }
    if (v.ok) {
      if (vf::TS().err != nullptr) {
        v.Fail(vf::TS().err);
      } else if (vf::TS().Live() != 0) {
        v.Fail("functor captures / payloads constructed != destroyed at quiescence");
      } else if (live_delta != 0) {
        v.Fail("heap blocks of the chain remain at quiescence");
      }
    }
    v.nontrivial = mixed || stop_before_done;
    v.hash = vf::Mix64(c.ProgHash(), ex.trace_hash);
    v.tags.push_back(kStackName[d.stack]);
    v.tags.push_back(vf::Intern(std::string("source:") + kSrcName[d.src]));
    if (mixed) {
      v.tags.push_back("refused-mid-chain");
    }
    char b[96];
    std::snprintf(b, sizeof b, "final_state=%d switches=%u", final_state, ex.switches);
    v.detail = b;
  }
  bool _warm = false;
};

}  // namespace

int main(int argc, char** argv) {
  RealPipe fam;
  vf::Driver d{{&fam}};
  return d.Main(argc, argv);
}
